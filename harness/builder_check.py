"""Checks for the builder family (C01, C02, C03, C05, C06, C07, C20).

Per run:  (1) TLC model-checks BuilderImpl against the contract clauses of the
property (exhaustive, small constants);  (2) TLC simulation produces behaviours
of BuilderImpl that are replayed on the real GCodeBuilder;  (3) seeded random
histories are executed on the real GCodeBuilder;  (4) negative controls are
derived from a real recorded history;  (5) TLC (BuilderTrace) judges every
recorded execution against the contract.  Only (5) can produce a VIOLATION.
"""
import copy
import json
import os
import time

from . import builder_drv, tlaval, tlc
from .builder_rec import Session
from .common import (EXIT_MACHINERY, EXIT_OK, EXIT_VIOLATION, MachineryError, known_findings, save_violation,
                     say, seed, workdir, write_evidence, write_json)

MOTION = ["move", "rapid", "move_absolute", "rapid_absolute", "set_axis", "auto_home", "probe",
          "set_distance_mode", "ctx_enter", "ctx_exit"]
INTERLOCK = ["tool_on", "tool_off", "power_on", "power_off", "coolant_on", "coolant_off", "tool_change",
             "halt", "pause", "stop", "wait", "emergency_halt", "set_tool_power"]
MODAL = ["set_feed_rate", "set_bed_temperature", "set_hotend_temperature", "set_chamber_temperature",
         "set_plane", "set_feed_mode", "set_extrusion_mode", "set_length_units",
         "set_time_units", "set_temperature_units", "set_direction", "set_resolution", "sleep", "set_fan_speed", "query", "comment"]

CLAUSES = {
    "C01": ["C01_Pos", "C01_Mode", "C01_Carries"],
    "C02": ["C02_Safe", "C02_Raises", "C02_OnlyDoc"],
    "C03": ["C03_Words", "C03_Reject", "C03_NaN"],
    "C05": ["C05_NoEmit", "C05_NoEffect", "C05_AsIfNever"],
    "C06": ["C06_Off"],
    "C07": ["C07_Tool", "C07_Coolant", "C07_Modal", "C07_Temps", "C07_Params"],
    "C20": ["C20_Count", "C20_Geometry", "C20_Params", "C20_Extrusion", "C20_ExtrusionF14"],
}
PROFILE = {"C01": "motion", "C02": "interlock", "C03": "bounds", "C05": "mixed", "C06": "interlock",
           "C07": "mixed", "C20": "hooks"}


def tla_set(xs):
    def one(x):
        if isinstance(x, str):
            return '"%s"' % x
        if isinstance(x, (tuple, list)):
            return "<<" + ", ".join(one(y) for y in x) + ">>"
        return str(x)
    return "{" + ", ".join(one(x) for x in xs) + "}"


MODEL_PROPS = {"C01_Pos", "C01_Mode", "C01_Carries", "C02_Safe", "C02_Raises", "C02_OnlyDoc", "C03_Words", "C03_Reject",
               "C05_NoEmit", "C05_NoEffect", "C06_Off", "C07_Tool", "C07_Coolant", "C07_Modal", "C07_Temps",
               "C07_Params", "C20_Count", "C20_Geometry", "C20_Params"}


def model_cfg(acts, ax, coords, deltas, vals, maxctx, boxes, ranges, props, constraint=True, bnames=()):
    props = [p for p in props if p in MODEL_PROPS]
    if boxes and "axes" not in bnames:
        bnames = tuple(bnames) + ("axes",)
    if (boxes or ranges) and "set_bounds" not in acts:
        acts = list(acts) + ["set_bounds"]
    defs = {"cActs": tla_set(acts), "cAx": tla_set(ax), "cCoords": tla_set(coords), "cDeltas": tla_set(deltas),
            "cVals": tla_set(vals), "cBoxes": tla_set(boxes), "cRanges": tla_set(ranges),
            "cBNames": tla_set(bnames)}
    root = tlc.wrapper("MCBuilder", "BuilderImpl", defs)
    cfg = ["SPECIFICATION Spec", "CONSTANTS", "  Acts <- cActs", "  AxUsed <- cAx", "  Coords <- cCoords",
           "  Deltas <- cDeltas", "  Vals <- cVals", "  MaxCtx = %d" % maxctx, "  BoxSet <- cBoxes",
           "  RangeSet <- cRanges", "  BoundNames <- cBNames", "VIEW view", "INVARIANT TypeOK"]
    if constraint:
        cfg.append("CONSTRAINT Bounded")
    for p in props:
        cfg.append("PROPERTY AP_%s" % p)
    return root, "\n".join(cfg) + "\n"


def mc_configs(pid, tier):
    """(name, root, cfg) of the exhaustive runs for a property."""
    thorough = tier == "thorough"
    cl = CLAUSES[pid]
    out = []
    if pid == "C01":
        out.append(("motion-1axis", model_cfg(MOTION, [1], [0, 1, 2], [-1, 1], [1], 2, [], [], cl)))
        if thorough:
            out.append(("motion-2axes", model_cfg(["move", "rapid", "move_absolute", "set_axis", "auto_home",
                                                    "set_distance_mode", "ctx_enter", "ctx_exit"],
                                                   [1, 2], [0, 1], [-1, 1], [], 1, [], [], cl)))
    elif pid in ("C02", "C06"):
        out.append(("interlock", model_cfg(INTERLOCK, [1], [0], [1], [0, 1, 3], 0, [], [(1, 2)], cl,
                                           bnames=("tool-power",))))
        out.append(("interlock+move", model_cfg(["tool_on", "tool_off", "coolant_on", "coolant_off", "halt", "move",
                                                 "set_bed_temperature", "emergency_halt"],
                                                [1], [0, 1], [1], [0, 3], 0, [], [(1, 2)], cl,
                                                bnames=("tool-power", "bed-temperature"))))
    elif pid == "C03":
        out.append(("bounds-axes", model_cfg(["move", "rapid", "move_absolute", "probe", "set_axis", "set_distance_mode"],
                                             [1], [-1, 0, 2, 3], [-1, 1], [1], 0, [(0, 2)], [], cl)))
        out.append(("bounds-feed-power", model_cfg(["move", "set_feed_rate", "set_tool_power", "tool_on", "tool_off"],
                                                   [1], [0], [1], [0, 1, 2, 3], 0, [], [(1, 2)], cl,
                                                   bnames=("feed-rate", "tool-power"))))
        out.append(("bounds-tool-temp", model_cfg(["tool_change", "set_bed_temperature", "halt"],
                                                  [1], [0], [1], [0, 1, 2, 3], 0, [], [(1, 2)], cl,
                                                  bnames=("tool-number", "bed-temperature"))))
    elif pid == "C05":
        out.append(("atomic-motion", model_cfg(MOTION + ["set_feed_rate"], [1], [-1, 0, 3], [-1, 1], [-1, 1], 1,
                                               [(0, 2)], [(1, 2)], cl, bnames=("feed-rate",))))
        out.append(("atomic-interlock", model_cfg(INTERLOCK + ["set_bed_temperature"], [1], [0], [1], [-1, 1, 3], 0,
                                                  [], [(1, 2)], cl, bnames=("tool-power", "bed-temperature"))))
        out.append(("atomic-aux", model_cfg(["set_time_units", "set_direction", "set_resolution", "sleep", "set_fan_speed", "query",
                                             "set_length_units", "tool_on", "halt"],
                                            [1], [0], [1], [-1, 0, 1, 256], 0, [], [], cl)))
    elif pid == "C07":
        out.append(("mirror-tool", model_cfg(["tool_on", "tool_off", "power_on", "power_off", "coolant_on", "coolant_off",
                                              "set_tool_power", "tool_change", "move", "emergency_halt"],
                                             [1], [0, 1], [1], [1, 2], 0, [], [], cl)))
        out.append(("mirror-modal", model_cfg(["set_feed_rate", "set_bed_temperature", "set_plane", "set_extrusion_mode",
                                               "move", "halt"], [1], [0, 1], [1], [1, 2], 0, [], [], cl)))
        out.append(("mirror-modal2", model_cfg(["set_hotend_temperature", "set_chamber_temperature", "set_feed_mode",
                                                "set_length_units", "probe", "set_axis", "set_distance_mode"],
                                               [1], [0, 1], [1], [1, 2], 0, [], [], cl)))
        out.append(("mirror-aux", model_cfg(["set_time_units", "set_temperature_units", "set_direction", "set_resolution", "sleep",
                                             "set_fan_speed", "query", "comment", "set_length_units", "move", "tool_on", "tool_off"],
                                            [1], [0, 1], [1], [1, 2], 0, [], [], cl)))
    elif pid == "C20":
        acts = ["move", "rapid", "move_absolute", "rapid_absolute", "set_distance_mode", "ctx_enter", "ctx_exit",
                "add_probe_hook", "remove_probe_hook", "set_axis"]
        out.append(("hooks", model_cfg(acts, [1, 2] if thorough else [1], [0, 1, 2], [-1, 1], [1], 1, [], [], cl)))
    return out


def sim_config(pid):
    acts = MOTION + INTERLOCK + MODAL + ["set_bounds", "add_probe_hook", "remove_probe_hook"]
    if pid == "C01":
        acts = MOTION + ["set_feed_rate"]
    elif pid in ("C02", "C06"):
        acts = INTERLOCK + ["move", "set_bounds", "set_bed_temperature", "set_distance_mode"]
    elif pid == "C20":
        acts = MOTION + ["add_probe_hook", "remove_probe_hook"]
    return model_cfg(acts, [1, 2, 3], [-1, 0, 1, 2, 3], [-2, -1, 1, 2], [-1, 0, 1, 2, 3], 2, [(0, 2)],
                     [(0, 2), (1, 2)], [])


def apalache_c01():
    """C01_Pos /\\ C01_Mode over unbounded integer coordinates: Init => IndInv and IndInv /\\ Next => IndInv'
    (specs/MotionInd.tla), discharged symbolically by Apalache. Absence or a time-out of the tool is reported, not failed."""
    return apalache_inductive("MotionInd", "coordinates and offsets: all integers; 3 axes")


def apalache_inductive(module, what):
    import shutil
    import subprocess
    if shutil.which("apalache-mc") is None:
        return {"status": "apalache-mc not found"}
    d = os.path.join(workdir(), "apalache")
    os.makedirs(d, exist_ok=True)
    shutil.copy(os.path.join(os.path.dirname(os.path.dirname(os.path.abspath(__file__))), "specs", module + ".tla"), d)
    res = {}
    t0 = time.time()
    for name, args in (("base", ["--init=Init", "--inv=IndInv", "--length=0"]), ("step", ["--init=IndInit", "--inv=IndInv", "--length=1"])):
        try:
            p = subprocess.run(["apalache-mc", "check"] + args + ["--out-dir=" + os.path.join(d, name), module + ".tla"], cwd=d,
                               stdout=subprocess.PIPE, stderr=subprocess.STDOUT, text=True, timeout=240)
        except subprocess.TimeoutExpired:
            res[name] = "timeout"
            continue
        if "EXITCODE: OK" in p.stdout:
            res[name] = "OK"
        elif "The outcome is: Error" in p.stdout:
            raise MachineryError("Apalache: the inductive invariant of %s fails (%s)\n%s" % (module, name, p.stdout[-1500:]))
        else:
            res[name] = "unknown: " + p.stdout[-200:]
    res["wall_s"] = round(time.time() - t0, 1)
    res["obligations"] = "Init => IndInv ; IndInv /\\ Next => IndInv'  (%s)" % what
    return res


# --------------------------------------------------------------------- replay
def desc_from_ev(ev):
    a = ev["a"]
    call = ev["call"]

    def val(q):
        return float(q["v"]) if q["k"] == "n" else None

    d = {"call": call}
    ax = [val(q) for q in a["ax"]]
    if any(x is not None for x in ax) or call in ("move", "rapid", "move_absolute", "rapid_absolute", "set_axis",
                                                  "auto_home", "probe"):
        d["ax"] = ax
    for k in ("F", "S", "E", "R"):
        if val(a[k]) is not None:
            d[k] = val(a[k])
    if a["mode"]:
        d["mode"] = a["mode"]
    if val(a["val"]) is not None:
        d["val"] = val(a["val"])
        if call == "tool_change":
            d["val"] = int(d["val"])
    if val(a["val2"]) is not None:
        d["val2"] = int(val(a["val2"]))
    d["flag"] = bool(a["flag"])
    if call == "set_bounds":
        d["name"] = a["name"]
        if a["name"] == "axes":
            d["lo"] = [val(q) for q in a["lo3"]]
            d["hi"] = [val(q) for q in a["hi3"]]
        else:
            d["lo"], d["hi"] = val(a["lo"]), val(a["hi"])
            if a["name"] == "tool-number":
                d["lo"], d["hi"] = int(d["lo"]), int(d["hi"])
    return d


def codes_of(lines):
    out = []
    for ln in lines:
        for w in ln["ws"]:
            if w["l"] in ("G", "M"):
                out.append((w["l"], w["v"]))
                break
        else:
            out.append(("-", 0))
    return out


def _qeq(a, b):
    return a["k"] == b["k"] and (a["k"] != "n" or a["v"] == b["v"])


def rep_diff(model, real):
    """Fields of the public snapshot on which BuilderImpl and the real builder disagree (names only)."""
    out = []
    for k in ("pos", "spos"):
        if not all(_qeq(a, b) for a, b in zip(model[k], real[k])):
            out.append(k)
    for k in ("feed", "power", "toolnum", "bed", "hotend", "chamber"):
        if not _qeq(model[k], real[k]):
            out.append(k)
    if model["res"]["k"] != "scaled" and not _qeq(model["res"], real["res"]):     # "scaled": converted by a change of units, not tracked
        out.append("res")
    for k in ("rel", "srel", "tool", "coolact", "spin", "pmode", "coolant", "swap", "halt", "units", "plane", "fmode", "emode",
              "tunits", "timeunits", "dir"):
        if model[k] != real[k]:
            out.append(k)
    for k in ("params", "sparams"):
        for letter, q in model[k].items():
            if letter in real[k] and not _qeq(q, real[k][letter]):
                out.append("%s.%s" % (k, letter))
    for name, b in model["bounds"].items():
        rb = real["bounds"][name]
        if b["set"] != rb["set"] or (b["set"] and (list(b["lo"]) if isinstance(b["lo"], list) else b["lo"]) != rb["lo"]):
            out.append("bounds." + name)
    return out


def replay_behaviours(files, limit=None):
    """Replay TLC behaviours of BuilderImpl on the real builder. Returns
    (traces, descs_per_trace, drift notes, distinct (call,outcome) pairs)."""
    traces, all_descs, drift = [], [], []
    pairs = set()
    for path in files[:limit]:
        states = tlaval.parse_behaviour_file(path)
        s = Session(dp=0, exact=True)
        descs = []
        for _, st in states[1:]:
            mev = st["ev"]
            d = desc_from_ev(mev)
            descs.append(d)
            rev = s.apply(d)
            pairs.add((d["call"], rev["out"]))
            if rev["out"] != mev["out"] or codes_of(rev["lines"]) != codes_of(mev["lines"]):
                drift.append({"file": os.path.basename(path), "call": d, "model": [mev["out"], codes_of(mev["lines"])],
                              "code": [rev["out"], codes_of(rev["lines"])]})
            else:
                # full state conformance: the model's own snapshot against the recorded one
                diff = rep_diff(mev["rep"], rev["rep"])
                if diff:
                    drift.append({"file": os.path.basename(path), "call": d, "state_differs": diff})
        while s.ctx:
            d = {"call": "ctx_exit", "flag": False}
            descs.append(d)
            s.apply(d)
        traces.append(s.trace({"driver": "tlc-behaviour", "src": os.path.basename(path)}))
        all_descs.append(descs)
    return traces, all_descs, drift, pairs


# ------------------------------------------------------------ negative controls
CONTROL_BASE = [
    {"call": "set_bounds", "name": "feed-rate", "lo": 100.0, "hi": 1000.0},
    {"call": "set_bounds", "name": "axes", "lo": [0.0, 0.0, 0.0], "hi": [20.0, 20.0, 20.0]},
    {"call": "add_probe_hook", "style": 0},
    {"call": "move", "ax": [1.0, 2.0, None], "F": 500.0, "E": 1.0},          # 4
    {"call": "move", "ax": [50.0, None, None]},                               # 5 rejected (box)
    {"call": "move", "ax": [2.0, None, None], "F": float("nan")},             # 6 rejected (NaN)
    {"call": "tool_on", "mode": "clockwise", "val": 100.0},                   # 7
    {"call": "tool_on", "mode": "counter", "val": 50.0},                      # 8 rejected (interlock)
    {"call": "coolant_on", "mode": "mist"},                                   # 9
    {"call": "set_bed_temperature", "val": 60.0},                             # 10
    {"call": "move", "ax": [3.0, 3.0, 1.0], "S": 80.0},                       # 11
    {"call": "tool_off"},                                                     # 12
    {"call": "coolant_off"},                                                  # 13
    {"call": "set_distance_mode", "mode": "relative"},                        # 14
    {"call": "move", "ax": [1.0, None, None]},                                # 15
    {"call": "emergency_halt", "flag": False},                                # 16
]


def _w(l, v):
    return {"l": l, "v": v, "ok": True}


def make_controls(pid):
    """Copies of a real recorded history with one planted violation per clause."""
    s = Session(dp=3, exact=True)
    for d in CONTROL_BASE:
        s.apply(d)
    base = s.trace({"driver": "control-base"})
    U = 1000

    def mut(clause, step, fn):
        t = copy.deepcopy(base)
        fn(t["ev"][step - 1], t)
        t["meta"]["control"] = {"clause": clause, "step": step}
        return t

    def bump(q, by=5 * U):
        q["v"] += by

    ctl = []
    if pid == "C01":
        ctl.append(mut("C01_Pos", 4, lambda e, t: (bump(e["rep"]["pos"][0]), bump(e["rep"]["spos"][0]))))
        ctl.append(mut("C01_Pos", 15, lambda e, t: e["lines"][0]["ws"].__setitem__(1, _w("X", 2 * U))))
        ctl.append(mut("C01_Mode", 14, lambda e, t: e["rep"].__setitem__("rel", False)))
        ctl.append(mut("C01_Carries", 4, lambda e, t: e["lines"][0]["ws"].__setitem__(2, _w("B", 2 * U))))     # Y word mislabelled
        # the conversion queries (beyond the listed properties): a converted point off by five units, a query that "moved" the tool
        s2 = Session(dp=3, exact=True)
        for d in [{"call": "move", "ax": [1.0, 2.0, None]}, {"call": "set_distance_mode", "mode": "relative"},
                  {"call": "to_absolute", "ax": [1.0, None, 2.0]}, {"call": "to_absolute_list", "pts": [[1.0, 1.0], [0.0, 2.0, 3.0]]}]:
            s2.apply(d)
        b2 = s2.trace({"driver": "control-base"})

        def mut2(clause, step, fn):
            t = copy.deepcopy(b2)
            fn(t["ev"][step - 1], t)
            t["meta"]["control"] = {"clause": clause, "step": step}
            return t
        ctl.append(mut2("CV_Convert", 3, lambda e, t: e["conv"][0].__setitem__(0, e["conv"][0][0] + 5 * U)))
        ctl.append(mut2("CV_Convert", 4, lambda e, t: e["conv"][1].__setitem__(2, e["conv"][1][2] + 5 * U)))
        ctl.append(mut2("CV_Pure", 3, lambda e, t: bump(e["rep"]["pos"][0])))
    if pid == "C02":
        ctl.append(mut("C02_Safe", 11, lambda e, t: e["lines"].append({"ws": [_w("S", 5 * U), _w("M", 40)], "c": False})))
        ctl.append(mut("C02_Safe", 10, lambda e, t: e["lines"].append({"ws": [_w("M", 0)], "c": False})))
        ctl.append(mut("C02_Raises", 8, lambda e, t: e.__setitem__("out", "ok")))
        ctl.append(mut("C02_OnlyDoc", 13, lambda e, t: e.__setitem__("out", "CoolantStateError")))
    if pid == "C03":
        def setw(e, letter, v):
            ws = e["lines"][0]["ws"]
            ws[[w["l"] for w in ws].index(letter)] = _w(letter, v)
        ctl.append(mut("C03_Words", 4, lambda e, t: setw(e, "F", 1500 * U)))
        ctl.append(mut("C03_Words", 11, lambda e, t: e["lines"][0]["ws"].__setitem__(1, _w("X", 21 * U))))
        ctl.append(mut("C03_Reject", 5, lambda e, t: e.__setitem__("out", "ok")))
        ctl.append(mut("C03_NaN", 6, lambda e, t: e.__setitem__("out", "ok")))
    if pid == "C05":
        ctl.append(mut("C05_NoEmit", 5, lambda e, t: e["lines"].append({"ws": [_w("G", 10), _w("X", 50 * U)], "c": False})))
        ctl.append(mut("C05_NoEffect", 5, lambda e, t: bump(e["rep"]["pos"][0])))
        ctl.append(mut("C05_NoEffect", 8, lambda e, t: bump(e["rep"]["power"])))
        ctl.append(mut("C05_NoEffect", 6, lambda e, t: bump(e["rep"]["params"]["F"])))
    if pid == "C06":
        ctl.append(mut("C06_Off", 12, lambda e, t: e["lines"][0]["ws"].__setitem__(0, _w("M", 30))))
        ctl.append(mut("C06_Off", 13, lambda e, t: e["rep"].__setitem__("coolact", True)))
        ctl.append(mut("C06_Off", 16, lambda e, t: (e["lines"].__setitem__(0, e["lines"][1]))))
        ctl.append(mut("C06_Off", 12, lambda e, t: e.__setitem__("out", "ValueError")))
    if pid == "C07":
        ctl.append(mut("C07_Tool", 7, lambda e, t: e["rep"].__setitem__("spin", "counter")))
        ctl.append(mut("C07_Tool", 11, lambda e, t: bump(e["rep"]["power"])))
        ctl.append(mut("C07_Coolant", 9, lambda e, t: e["rep"].__setitem__("coolant", "flood")))
        ctl.append(mut("C07_Modal", 4, lambda e, t: bump(e["rep"]["feed"])))
        ctl.append(mut("C07_Temps", 10, lambda e, t: bump(e["rep"]["bed"])))
        ctl.append(mut("C07_Params", 4, lambda e, t: bump(e["rep"]["params"]["E"])))
    if pid == "C20":
        ctl.append(mut("C20_Count", 4, lambda e, t: e.__setitem__("hooks", [])))
        ctl.append(mut("C20_Geometry", 11, lambda e, t: bump(e["hooks"][0]["o"][0])))
        ctl.append(mut("C20_Geometry", 15, lambda e, t: bump(e["hooks"][0]["t"][0])))
        ctl.append(mut("C20_Params", 4, lambda e, t: bump(e["hooks"][0]["pout"]["E"])))
        # the bundled extrusion hook: a real history, then one E word off by 0.05 mm
        s2 = Session(dp=3, exact=False)
        for d in [{"call": "add_extrusion_hook", "lh": 0.2, "nd": 0.4, "fd": 1.75}, {"call": "move", "ax": [0.0, 0.0, 0.2]},
                  {"call": "move", "ax": [10.0, 0.0, None]}, {"call": "move", "ax": [10.0, 7.5, None]},
                  {"call": "set_extrusion_mode", "mode": "relative"}, {"call": "move", "ax": [2.0, 2.5, None]}]:
            s2.apply(d)
        b2 = s2.trace({"driver": "control-base"})

        def mut2(clause, step, fn):
            t = copy.deepcopy(b2)
            fn(t["ev"][step - 1])
            t["meta"]["control"] = {"clause": clause, "step": step}
            return t

        def bump_e(e, by):
            for w in e["lines"][0]["ws"]:
                if w["l"] == "E":
                    w["v"] += by
        ctl.append(mut2("C20_Extrusion", 4, lambda e: bump_e(e, 50)))
        ctl.append(mut2("C20_Extrusion", 6, lambda e: bump_e(e, -40)))
    return ctl


def impl_level(traces):
    """Impl-level trace validation (BuilderImplTrace): every call of the dp=0 exact traces against BuilderImpl's own
    operators. Returns (calls compared, mismatches)."""
    sel = [t for t in traces if t["meta"].get("dp") == 0 and t["meta"].get("exact")]
    if not sel:
        return 0, []
    path = os.path.join(workdir(), "impl_level_%d.json" % (int(time.time() * 1000) % 100000))
    write_json(path, sel)
    defs = {"cE": "{}", "cB": "{}"}
    root = tlc.wrapper("MCBuilderImplTrace", "BuilderImplTrace", defs)
    cfg = "\n".join(["SPECIFICATION SpecT", "CONSTANTS", " Acts <- cE", " AxUsed <- cE", " Coords <- cE", " Deltas <- cE", " Vals <- cE",
                     " MaxCtx = 0", " BoxSet <- cB", " RangeSet <- cB", " BoundNames <- cE"]) + "\n"
    d = tlc._fresh("implval")
    cfgp, spec = tlc._root(d, "MCBuilderImplTrace", cfg, root)
    r = tlc._run(["-workers", "1", "-metadir", os.path.join(d, "meta"), "-noGenerateSpecTE", "-deadlock", "-config", cfgp, spec],
                 {"TRACE_FILE": path}, "3g", 900, d)
    if r.errors or r.rc != 0:
        raise MachineryError("BuilderImplTrace failed: %s\n%s" % (r.errors[:2], r.stdout[-2000:]))
    compared = sum(t[2] for t in r.tuples if t and t[0] == "C")
    mism = [[t[1], t[2], t[3], t[4]] for t in r.tuples if t and t[0] == "X"]
    return compared, mism


# ------------------------------------------------------------------ validation
def brief_event(e):
    return {"call": e["call"], "out": e["out"],
            "lines": [" ".join("%s%s" % (w["l"], w["v"]) for w in ln["ws"]) for ln in e["lines"]]}


NOTES = []


def validate_traces(traces, shards=12):
    """Returns (failures, done, results). failures: (trace_index, step, clause, sig)."""
    wd = workdir()
    n = len(traces)
    shards = max(1, min(shards, n))
    files, index = [], []
    for k in range(shards):
        idx = list(range(k, n, shards))
        path = os.path.join(wd, "traces_%d_%d.json" % (int(time.time() * 1000) % 100000, k))
        write_json(path, [traces[i] for i in idx])
        files.append(path)
        index.append(idx)
    cfg = "SPECIFICATION Spec\n"
    results = tlc.validate_sharded("BuilderTrace", cfg, files)
    failures, done = [], {}
    NOTES.clear()
    for r, idx in zip(results, index):
        if r.errors or r.violated or r.rc not in (0,):
            raise MachineryError("TLC failed on trace batch: rc=%s %s\n%s" % (r.rc, r.errors[:3], r.stdout[-2000:]))
        for t in r.tuples:
            if t and t[0] == "N":
                NOTES.append((idx[t[1] - 1], t[2]))
            if t and t[0] == "F":
                failures.append((idx[t[1] - 1], t[2], t[3], t[4]))
            elif t and t[0] == "D":
                done[idx[t[1] - 1]] = (t[2], t[3])
    for f in files:
        try:
            os.remove(f)
        except OSError:
            pass
    if len(done) != n:
        raise MachineryError("TLC finished %d of %d traces" % (len(done), n))
    return failures, done, results


def as_if_never(traces, descs, limit=80):
    """C05_AsIfNever (AsIfNeverTrace.tla): every recorded history with refused calls is run again without them; the other
    calls must behave exactly as before.  Returns (failures as (trace index, step, clause, sig), statistics)."""
    from .common import workdir, write_json
    recs, idx = [], []

    def slim(e):
        return {"call": e["call"], "out": e["out"], "lines": e["lines"], "rep": e["rep"]}
    for i, (t, ds) in enumerate(zip(traces, descs)):
        if len(idx) >= limit:
            break
        if len(ds) != len(t["ev"]) or t["meta"].get("xf"):
            continue
        ref = {k for k, e in enumerate(t["ev"]) if e["out"] != "ok" and not e["lines"] and not e.get("fault")}
        if not ref:
            continue
        keep = [k for k in range(len(ds)) if k not in ref]
        # a hook registered without an explicit style (replayed TLC behaviours) took its style from the number of events so
        # far; the second run has fewer events, so it is told the style the first run used
        ds2 = [dict(ds[k], style=k % 3) if ds[k]["call"] == "add_probe_hook" and "style" not in ds[k] else ds[k] for k in keep]
        t2 = builder_drv.run_descs(ds2, dp=t["meta"]["dp"], exact=t["meta"]["exact"])
        recs.append({"a": [slim(t["ev"][k]) for k in keep], "b": [slim(e) for e in t2["ev"]], "nrefused": len(ref)})
        idx.append((i, keep))
    if not recs:
        return [], {"histories": 0, "refused_calls_left_out": 0}
    path = os.path.join(workdir(), "asifnever_%d.json" % (int(time.time() * 1000) % 100000))
    write_json(path, recs)
    r = tlc.validate("AsIfNeverTrace", "SPECIFICATION Spec\n", path, tag="asif")
    if r.errors:
        raise MachineryError("AsIfNeverTrace failed: %s\n%s" % (r.errors[:2], r.stdout[-1500:]))
    if len([t for t in r.tuples if t and t[0] == "D"]) != len(recs):
        raise MachineryError("AsIfNeverTrace judged fewer histories than it was given")
    fails = []
    for t in r.tuples:
        if t and t[0] == "F":
            i, keep = idx[t[1] - 1]
            d = t[2]
            step = keep[d - 1] + 1 if 1 <= d <= len(keep) else len(traces[i]["ev"])
            fails.append((i, step, "C05_AsIfNever", ""))
    # the binding is live: a run in which one kept call is given another position must be reported
    bad = json.loads(json.dumps(recs[:1]))
    bad[0]["b"][-1]["rep"]["pos"][0]["v"] += 1000
    bad[0]["b"][-1]["rep"]["pos"][0]["k"] = "n"
    p2 = os.path.join(workdir(), "asifnever_ctl.json")
    write_json(p2, bad)
    r2 = tlc.validate("AsIfNeverTrace", "SPECIFICATION Spec\n", p2, tag="asifctl")
    if not [t for t in r2.tuples if t and t[0] == "F"]:
        raise MachineryError("AsIfNeverTrace accepted a run whose last call ended elsewhere")
    return fails, {"histories": len(recs), "refused_calls_left_out": sum(x["nrefused"] for x in recs),
                   "calls_compared": sum(len(x["a"]) for x in recs), "differing_histories": len(fails), "planted_difference_detected": True}


def run(pid, tier, replay_path=None):
    t0 = time.time()
    sd = seed()
    clauses = CLAUSES[pid]
    thorough = tier == "thorough"
    kf = [f for f in known_findings()["findings"] if f["property"] == pid]
    kf_sigs = {f["signature"]: f for f in kf}

    cov = {"states": 0, "transitions": 0, "model_runs": [], "exhaustive": False}
    traces, descs = [], []
    notes = []

    if replay_path:
        with open(replay_path) as fh:
            rp = json.load(fh)
        tr = builder_drv.run_descs(rp["descs"], dp=rp["dp"], exact=rp["exact"], meta={"driver": "replay"})
        traces, descs = [tr], [rp["descs"]]
    else:
        # (1) exhaustive model checking of the implementation-shaped model
        for name, (root, cfg) in mc_configs(pid, tier):
            r = tlc.model_check("MCBuilder", cfg, root_text=root, timeout=600, tag="mc_" + name)
            cov["model_runs"].append({"config": name, "states": r.distinct, "transitions": r.generated,
                                      "depth": r.depth, "violated": r.violated, "wall_s": round(r.wall, 1),
                                      "actions_taken": {k: v[1] for k, v in sorted(r.coverage.items()) if v[1] > 0 and k[0].isupper()}})
            if r.errors or r.distinct == 0:
                raise MachineryError("model check %s failed: %s\n%s" % (name, r.errors[:3], r.stdout[-1500:]))
            if r.violated:
                raise MachineryError("BuilderImpl violates contract clause(s) %s in config %s: the model "
                                     "misrepresents the design\n%s" % (r.violated, name, r.cex[:3000]))
            cov["states"] += r.distinct
            cov["transitions"] += r.generated
        cov["exhaustive"] = True
        if pid in ("C02", "C06"):
            cov["apalache_inductive_invariant"] = apalache_inductive(
                "InterlockInd", "powers, tool numbers and their bounds: all integers; mirror of tool/coolant state, no halt or tool-change "
                                "line while the machine's tool or coolant is on")
        if pid == "C01":
            cov["apalache_inductive_invariant"] = apalache_c01()
            # beyond the listed properties: the bundled analyser (printrun.gcoder) against the same reference interpreter
            from . import check_gcoder
            for name, module, cfg, _root_text, expect in check_gcoder.model_runs():
                r = tlc.model_check(module, cfg, timeout=600, tag="mc_" + name)
                cov["model_runs"].append({"config": name, "states": r.distinct, "transitions": r.generated, "depth": r.depth,
                                          "violated": r.violated, "wall_s": round(r.wall, 1), "actions_taken": {}})
                if r.errors or r.distinct == 0 or sorted(r.violated) != sorted(expect):
                    raise MachineryError("model check %s: violated %s, expected %s; %s\n%s" % (name, r.violated, expect, r.errors[:2], r.stdout[-1500:]))
        # (2) behaviours of the model replayed on the real code
        root, cfg = sim_config(pid)
        nb = 400 if thorough else 60
        r, files = tlc.simulate("MCBuilder", cfg, num=nb, depth=30 if thorough else 22, seed=sd % (2 ** 31),
                                root_text=root, timeout=900)
        if not files:
            raise MachineryError("simulation produced no behaviours\n" + r.stdout[-1500:])
        btr, bdescs, drift, pairs = replay_behaviours(files)
        traces += btr
        descs += bdescs
        cov["behaviours_replayed"] = len(btr)
        cov["replayed_call_outcome_pairs"] = sorted("%s:%s" % p for p in pairs)
        cov["drift_notes"] = drift[:5]
        cov["drift_count"] = len(drift)
        if drift:
            say("NOTE drift: %d replayed calls behaved differently from BuilderImpl (first: %s)" % (len(drift), json.dumps(drift[0])[:300]))
        # (3) seeded random histories
        nr = 1200 if thorough else 150
        for i in range(nr):
            exact = (i % 3) != 2
            dp = None if exact else [2, 3, 4][i % 3]
            prof = PROFILE[pid]
            if pid == "C20" and i % 2 == 1:
                prof, exact, dp = "extrusion", False, 3
            if pid == "C01" and i % 10 == 9:
                prof, exact, dp = "fine", False, 7          # motion at 7 decimal places (small coordinates, no F/S/E words)
            tr, ds = builder_drv.random_trace(sd * 1000 + i, profile=prof, exact=exact, dp=dp)
            traces.append(tr)
            descs.append(ds)
    nreal = len(traces)
    if not replay_path:
        compared, mism = impl_level(traces)
        cov["impl_level_calls_compared_with_BuilderImpl"] = compared
        cov["impl_level_mismatches"] = len(mism)
        cov["impl_level_mismatch_samples"] = mism[:5]
        if mism:
            say("NOTE drift: %d of %d recorded calls differ from what BuilderImpl computes (first: %s)" % (len(mism), compared, mism[0]))
    if pid == "C01" and not replay_path:
        from . import check_gcoder
        gv = check_gcoder.validate(traces)
        cov["gcoder_cross_oracle"] = gv
        if gv.get("impl_mismatches") or gv.get("disagreements_with_Machine"):
            say("NOTE cross-oracle (beyond the listed properties): the bundled gcoder analyser differs from GcoderImpl on %d events and from "
                "Machine.tla on %d events (outside the named deviation HomeZeroIsHomeAll, met on %d events)"
                % (gv["impl_mismatches"], gv["disagreements_with_Machine"], gv["events_under_named_deviation_HomeZeroIsHomeAll"]))
    controls = [] if replay_path else make_controls(pid)
    failures, done, results = validate_traces(traces + controls)
    asif = None
    if pid == "C05":
        fs, asif = as_if_never(traces[:nreal], descs, limit=400 if thorough else 80)
        failures = failures + fs
        cov["as_if_never"] = asif

    # negative controls: every planted violation must be seen, with the right clause
    deferred = []          # machinery complaints: raised below unless real executions already violate the property
    missed = []
    for k, c in enumerate(controls):
        want = c["meta"]["control"]
        hit = [f for f in failures if f[0] == nreal + k and f[2] == want["clause"] and f[1] == want["step"]]
        if not hit:
            missed.append(want)
    if missed:
        deferred.append("negative controls not detected: %s" % missed)

    # vacuity: every clause of this property must have been exercised on real executions
    counts = {c: 0 for c in clauses}
    for i in range(nreal):
        for c in clauses:
            counts[c] += done[i][1].get(c, 0)
    if asif is not None:
        counts["C05_AsIfNever"] = asif["refused_calls_left_out"]
    if not replay_path:
        idle = [c for c, n in counts.items() if n == 0]
        if idle:
            deferred.append("clauses never exercised: %s" % idle)

    mine = [f for f in failures if f[0] < nreal and f[2] in clauses]
    # the conversion queries (to_absolute / to_distance_mode / to_absolute_list) belong to no listed property: notes only
    beyond = ("CV_Convert", "CV_Pure")
    cvf = [f for f in failures if f[0] < nreal and f[2] in beyond]
    cv_checks = sum(done[i][1].get("CV_Convert", 0) for i in range(nreal))
    if cv_checks or cvf:
        cov["conversion_queries"] = {"calls_checked": cv_checks, "failures": len(cvf),
                                     "first_failures": [[f[0], f[1], f[2]] for f in cvf[:3]]}
    if cvf:
        e0 = traces[cvf[0][0]]["ev"][cvf[0][1] - 1]
        say("NOTE conversion queries (beyond the listed properties): %d clause failures, first: %s on %s" %
            (len(cvf), cvf[0][2], json.dumps({"call": e0["call"], "a": e0["a"].get("ax"), "conv": e0.get("conv")})[:300]))
    others = sorted({f[2] for f in failures if f[0] < nreal and f[2] not in clauses and f[2] not in beyond})
    if others:
        say("NOTE clauses of other properties failed in these executions (judged by their own checks): %s" % others)
    viol, known_hit = [], {}
    for f in mine:
        if f[3] and f[3] in kf_sigs:
            known_hit.setdefault(f[3], []).append(f)
        else:
            viol.append(f)
    for sig, fs in known_hit.items():
        say("KNOWN-FINDING: property=%s %s (%s) -- %d occurrences, e.g. trace %d step %d" %
            (pid, kf_sigs[sig]["id"], kf_sigs[sig]["description"], len(fs), fs[0][0], fs[0][1]))
    if deferred and not viol:
        raise MachineryError("; ".join(deferred))
    if deferred:
        # controls and vacuity counts are derived from executions of the tree under test: when those already violate the
        # property they are not a reliable yardstick -- the violations are the verdict
        say("NOTE %s (not judged: the real executions violate the property)" % "; ".join(deferred)[:300])
    rc = EXIT_OK
    vpaths = []
    seen = set()
    for f in viol:
        if f[0] in seen:
            continue
        seen.add(f[0])
        i, step, clause, _ = f
        e = traces[i]["ev"][step - 1]
        payload = {"property": pid, "clause": clause, "step": step, "dp": traces[i]["meta"]["dp"],
                   "exact": traces[i]["meta"]["exact"], "descs": descs[i][:step] if i < len(descs) else [],
                   "failing_event": brief_event(e), "meta": traces[i]["meta"],
                   "all_failures_in_trace": [list(x[1:]) for x in viol if x[0] == i]}
        path = save_violation(pid, "%s_%d" % (clause, len(vpaths)), payload)
        vpaths.append(path)
        if len(vpaths) <= 5:
            say("VIOLATION property=%s replay=%s" % (pid, path))
            say("  clause %s false at step %d: %s" % (clause, step, json.dumps(brief_event(e))[:300]))
        rc = EXIT_VIOLATION
    cov.update({
        "traces_validated_against_impl": nreal,
        "recorded_calls": sum(len(t["ev"]) for t in traces),
        "negative_controls": len(controls),
        "negative_controls_detected": len(controls) - len(missed),
        "clause_antecedent_counts": counts,
        "known_findings_hit": {k: len(v) for k, v in known_hit.items()},
        "cross_oracle_gcoder_disagreements": len([n for n in NOTES if n[0] < nreal and n[1] == "gcoder"]),
        "samples": [{"meta": t["meta"], "calls": [brief_event(e) for e in t["ev"][:12]]} for t in traces[:3]],
    })
    if not replay_path:
      write_evidence(pid, tier, cov,
                   ["Machine.tla is the reference interpreter (RS-274/Marlin modal semantics as written there)",
                    "the recorder's projection (public properties, tokenised lines, q-records) is faithful",
                    "exact runs use dyadic grid values so float arithmetic is exact; float runs carry rounding slack"],
                   time.time() - t0, len(vpaths))
    say("%s %s: %d model states, %d traces (%d calls), %d controls, %d violation(s), %.1fs" %
        (pid, tier, cov["states"], nreal, cov["recorded_calls"], len(controls), len(vpaths), time.time() - t0))
    return rc
