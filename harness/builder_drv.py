"""Seeded random drivers for the builder family. They only *choose calls*;
what the calls did is recorded by builder_rec.Session and judged by TLC."""
import math
import random

from .builder_rec import Session

SPIN = ["clockwise", "counter"]
POWER = ["constant", "dynamic"]
COOL = ["mist", "flood"]
SWAP = ["manual", "automatic"]
HALT = ["pause", "optional-pause", "end-without-reset", "end-with-reset", "pallet-exchange",
        "wait-for-bed", "wait-for-hotend", "wait-for-chamber", "wait-for-motion"]
PROBE = ["towards", "towards-no-error", "away", "away-no-error"]
STEP = {0: 1.0, 1: 0.5, 2: 0.25, 3: 0.125, 4: 0.0625, 5: 0.03125, 7: 0.0078125, 8: 0.00390625}


class Gen:
    """Chooses call descriptors. `profile` weights the API areas."""

    def __init__(self, rng, dp, exact=True, profile="mixed", fail_rate=0.15):
        self.r = rng
        self.dp = dp
        self.exact = exact
        self.step = STEP[dp]
        self.profile = profile
        self.fail_rate = fail_rate
        self.bounds = {}
        self.depth = 0
        self.hook = False

    # ------------------------------------------------------------- numbers
    def grid(self, lo, hi):
        n0, n1 = math.ceil(lo / self.step), math.floor(hi / self.step)
        return self.r.randint(n0, n1) * self.step

    def num(self, lo, hi):
        if self.exact:
            return self.grid(lo, hi)
        if self.r.random() < 0.3:
            return self.grid(lo, hi)
        return self.r.uniform(lo, hi)

    def bad_num(self, name=None):
        """A value that must be rejected: negative, non-finite or out of the configured bound."""
        opts = [-1.0, -self.step, float("nan"), float("inf"), float("-inf")]
        if name in self.bounds:
            lo, hi = self.bounds[name]
            opts += [lo - self.step, hi + self.step, math.nextafter(hi, math.inf), hi + 100.0]
            if lo > 0:
                opts += [math.nextafter(lo, -math.inf), 0.0]
        return self.r.choice(opts)

    def good_num(self, name, lo, hi):
        # a value used before comes back now and then (added after seed C07h: "the feed is already F<a>" decided against a stale
        # record -- needs move(F=a), set_feed_rate(b), move(F=a))
        pool = self.__dict__.setdefault("pools", {}).setdefault(name, [])
        if pool and self.r.random() < 0.3:
            v = self.r.choice(pool)
            if name not in self.bounds or self.bounds[name][0] <= v <= self.bounds[name][1]:
                return v
        v = self._good_num(name, lo, hi)
        pool.append(v)
        del pool[:-3]
        return v

    def _good_num(self, name, lo, hi):
        if name in self.bounds:
            blo, bhi = self.bounds[name]
            lo, hi = max(lo, blo), min(hi, bhi)
            if self.r.random() < 0.3:
                return self.r.choice([blo, bhi]) if blo >= 0 else bhi
        return self.num(lo, hi)

    def value(self, name, lo, hi):
        if self.r.random() < self.fail_rate:
            return self.bad_num(name)
        return self.good_num(name, lo, hi)

    def coords(self, rel):
        ax = [None, None, None]
        k = self.r.choice([1, 1, 2, 2, 3, 0]) if self.r.random() < 0.95 else 0
        for i in self.r.sample(range(3), k):
            if rel:
                ax[i] = self.num(-6, 6)
            else:
                ax[i] = self.num(-4, 24) if "axes" in self.bounds and self.r.random() < self.fail_rate * 1.5 else self.num(0, 20)
            if "axes" in self.bounds and self.r.random() < 0.08:
                ax[i] = self.r.choice([0.0, 20.0, math.nextafter(20.0, math.inf), math.nextafter(0.0, -math.inf), 20.0 + self.step])
            if self.r.random() < self.fail_rate * 0.1:
                ax[i] = self.r.choice([float("nan"), float("inf")])
        return ax

    # ------------------------------------------------------------- calls
    def motion(self):
        r = self.r
        c = r.choice(["move", "move", "move", "rapid", "rapid", "move_absolute", "rapid_absolute",
                      "set_axis", "auto_home", "probe", "set_distance_mode", "ctx"])
        if c == "set_distance_mode":
            self.rel = r.random() < 0.5
            return {"call": c, "mode": "relative" if self.rel else "absolute"}
        if c == "ctx":
            if self.depth > 0 and r.random() < 0.55:
                self.depth -= 1
                return {"call": "ctx_exit", "flag": r.random() < 0.3}
            if self.depth < 3:
                self.depth += 1
                return {"call": "ctx_enter", "mode": r.choice(["absolute", "relative"])}
            return {"call": "comment", "text": "x"}
        d = {"call": c}
        rel = r.random() < 0.5  # the generator does not track the mode; both shapes of argument are valid in both modes
        if c in ("move_absolute", "rapid_absolute", "set_axis"):
            rel = False
        d["ax"] = self.coords(rel)
        if c == "auto_home":
            d["ax"] = [0.0 if (x is not None) else None for x in d["ax"]] if r.random() < 0.7 else [None] * 3
        if c == "probe":
            d["mode"] = r.choice(PROBE)
        if r.random() < 0.15:
            d["haspt"] = True
        if c in ("move", "rapid", "move_absolute", "rapid_absolute", "probe"):
            if r.random() < 0.35:
                d["F"] = self.value("feed-rate", 1, 3000)
            if r.random() < 0.2:
                d["S"] = self.value("tool-power", 0, 1000)
            if r.random() < 0.2:
                d["E"] = self.num(-5, 50)
        if c == "set_axis" and r.random() < 0.3:
            d["E"] = self.num(0, 5)
        if r.random() < 0.12:
            d["lower"] = True              # move(x=1, f=100, s=5): lower-case parameter letters
        return d

    def interlock(self):
        r = self.r
        c = r.choice(["tool_on", "tool_on", "tool_off", "power_on", "power_on", "power_off", "coolant_on",
                      "coolant_on", "coolant_off", "tool_change", "halt", "halt", "pause", "stop", "wait",
                      "emergency_halt", "set_tool_power"])
        d = {"call": c}
        badmode = r.random() < self.fail_rate * 0.4
        if c == "tool_on":
            d.update(mode=r.choice(SPIN + (["off", "bogus"] if badmode else [])), val=self.value("tool-power", 0, 1000))
        elif c == "power_on":
            d.update(mode=r.choice(POWER + (["off", "bogus"] if badmode else [])), val=self.value("tool-power", 0, 1000))
        elif c == "coolant_on":
            d.update(mode=r.choice(COOL + (["off", "bogus"] if badmode else [])))
        elif c == "tool_change":
            v = r.randint(1, 9)
            if "tool-number" in self.bounds and r.random() < 0.5:
                lo, hi = self.bounds["tool-number"]
                v = r.choice([lo, hi, lo - 1, hi + 1, r.randint(lo, hi)])
            if r.random() < self.fail_rate:
                v = r.choice([0, -1, 99])
            d.update(mode=r.choice(SWAP + (["off", "bogus"] if badmode else [])), val=v)
        elif c == "halt":
            d.update(mode=r.choice(HALT + (["off", "bogus"] if badmode else [])))
            if d["mode"].startswith("wait-for-") and d["mode"] != "wait-for-motion" and r.random() < 0.7:
                name = d["mode"][len("wait-for-"):] + "-temperature"
                d[r.choice(["S", "R"])] = self.value(name, 0, 300)
        elif c in ("pause", "stop", "emergency_halt"):
            d.update(flag=r.random() < 0.5)
            if c == "emergency_halt":      # also non-ASCII messages (added after seed C06f: an ASCII-only write path)
                d["text"] = r.choice(["stop", "stop", "85\u00b0C reached", "\u00dcbertemperatur", "halt \u4e2d\u6587"])
        elif c == "set_tool_power":
            d.update(val=self.value("tool-power", 0, 1000))
        if c in ("tool_on", "power_on", "coolant_on") and r.random() < 0.1:
            d["fault"] = True              # the device link fails on this statement (the recording writer has it by then)
        if c == "halt" and r.random() < 0.2:
            d["lower"] = True              # halt(..., s=210): parameter letters are case-insensitive
        return d

    def modal(self):
        r = self.r
        c = r.choice(["set_feed_rate", "set_bed_temperature", "set_hotend_temperature",
                      "set_chamber_temperature", "set_fan_speed", "sleep", "set_length_units", "set_plane",
                      "set_feed_mode", "set_extrusion_mode", "set_time_units", "set_temperature_units",
                      "set_direction", "query", "comment", "set_resolution"])
        d = {"call": c}
        bad = r.random() < self.fail_rate * 0.4
        if c == "set_feed_rate":
            d["val"] = self.value("feed-rate", 1, 3000)
        elif c.endswith("_temperature"):
            name = c[4:-12] + "-temperature"
            v = self.good_num(name, 0, 300)
            if r.random() < self.fail_rate:
                opts = [float("nan"), float("inf")]
                if name in self.bounds:
                    lo, hi = self.bounds[name]
                    opts += [lo - self.step, hi + self.step, math.nextafter(hi, math.inf)]
                v = r.choice(opts)
            d["val"] = v
        elif c == "set_fan_speed":
            d["val"] = r.choice([0, 255, self.num(0, 255)]) if r.random() > self.fail_rate else r.choice([-1.0, 256.0, float("nan")])
            d["val2"] = r.choice([0, 0, 1, 2]) if r.random() > self.fail_rate * 0.3 else -1
        elif c == "sleep":
            d["val"] = self.num(0, 10) if r.random() > self.fail_rate else r.choice([-1.0, float("nan"), float("inf")])
        elif c == "set_resolution":
            d["val"] = r.choice([0.1, 0.5, 1.0]) if r.random() > self.fail_rate else r.choice([0.0, -1.0])
        elif c == "set_length_units":
            d["mode"] = r.choice(["inches", "millimeters"] + (["bogus"] if bad else []))
        elif c == "set_plane":
            d["mode"] = r.choice(["xy", "zx", "yz"] + (["bogus"] if bad else []))
        elif c == "set_feed_mode":
            d["mode"] = r.choice(["units/min", "units/rev", "1/time"] + (["bogus"] if bad else []))
        elif c == "set_extrusion_mode":
            d["mode"] = r.choice(["absolute", "relative"] + (["bogus"] if bad else []))
        elif c == "set_time_units":
            d["mode"] = r.choice(["seconds", "milliseconds"] + (["bogus"] if bad else []))
        elif c == "set_temperature_units":
            d["mode"] = r.choice(["celsius", "kelvin"] + (["bogus"] if bad else []))
        elif c == "set_direction":
            d["mode"] = r.choice(["clockwise", "counter"] + (["bogus"] if bad else []))
        elif c == "query":
            d["mode"] = r.choice(["position", "temperature"] + (["bogus"] if bad else []))
        return d

    def set_bounds(self):
        r = self.r
        name = r.choice(["axes", "axes", "feed-rate", "tool-power", "tool-power", "tool-number",
                         "bed-temperature", "hotend-temperature", "chamber-temperature"])
        if name == "axes":
            if r.random() < self.fail_rate * 0.5:    # refused: not (min < max) as points
                return {"call": "set_bounds", "name": name, "lo": r.choice([[0.0, 0.0, 0.0], [0.0, 21.0, 0.0]]), "hi": [0.0, 0.0, 0.0]}
            self.bounds[name] = (0.0, 20.0)
            return {"call": "set_bounds", "name": name, "lo": [0.0, 0.0, 0.0], "hi": [20.0, 20.0, 20.0]}
        if name == "tool-number":
            lo, hi = r.choice([(1, 5), (2, 4), (1, 3)])
        elif name == "tool-power":
            lo, hi = r.choice([(0.0, 500.0), (10.0, 100.0), (100.0, 800.0), (0.0, 1000.0)])
        elif name == "feed-rate":
            lo, hi = r.choice([(100.0, 1000.0), (1.0, 2000.0), (0.0, 500.0)])
        else:
            lo, hi = r.choice([(0.0, 100.0), (20.0, 250.0), (10.0, 60.0)])
        if r.random() < self.fail_rate * 0.5:        # refused: min >= max; the bounds in force stay as they are
            return {"call": "set_bounds", "name": name, "lo": hi, "hi": r.choice([lo, hi])}
        self.bounds[name] = (lo, hi)
        return {"call": "set_bounds", "name": name, "lo": lo, "hi": hi}

    def tracer(self):
        """An interpolated path that is valid from wherever the builder is (request built at call time)."""
        r = self.r
        shape = r.choice(["arc", "arc", "circle", "helix", "spiral", "thread", "spline", "polyline", "arc_radius"])
        ang = r.uniform(0, 6.28)
        rad = r.uniform(1.5, 6.0)
        a = {"c": [rad * math.cos(ang), rad * math.sin(ang)], "sweep": r.choice([-1, 1]) * r.uniform(0.4, 5.5),
             "dz": r.choice([0.0, 0.0, r.uniform(-2, 2)]), "dr": r.uniform(-1, 2), "turns": r.choice([1, 1, 2]),
             "t": [r.uniform(2, 6) * r.choice([-1, 1]), r.uniform(2, 6) * r.choice([-1, 1])], "pitch": r.choice([0.5, 1.0]),
             "radius": r.choice([-1, 1]) * 6.5,
             "offs": [[r.uniform(-4, 4), r.uniform(-4, 4), r.choice([0.0, r.uniform(-1, 1)])] for _ in range(r.randint(2, 4))]}
        if shape == "thread" and a["dz"] == 0.0:
            a["dz"] = 1.5
        return {"call": "trace", "shape": shape, "auto": a}

    def extrusion(self):
        r = self.r
        x = r.random()
        if not getattr(self, "ext", False) or x < 0.05:
            first = not getattr(self, "ext_once", False)
            self.ext = True
            self.ext_once = True
            self.e_reset_next = first and r.random() < 0.5     # an E reset (often non-zero) before the very first move
            lh, nd, fd = r.choice([(0.2, 0.4, 1.75), (0.3, 0.6, 2.85), (0.1, 0.25, 1.75), (0.25, 0.8, 2.85)])
            return {"call": "add_extrusion_hook", "lh": lh, "nd": nd, "fd": fd}
        if getattr(self, "e_reset_next", False):
            self.e_reset_next = False
            # "G92 X.. Y.. E..": the usual way to start a print from a known point
            return {"call": "set_axis", "ax": [self.num(0, 10), self.num(0, 10), None] if r.random() < 0.7 else [None, None, None],
                    "E": r.choice([12.5, 3.0, 0.0, 40.0])}
        if x < 0.12:
            return {"call": "set_extrusion_mode", "mode": r.choice(["absolute", "relative"])}
        if x < 0.2:
            return {"call": "set_axis", "ax": [None, None, None], "E": r.choice([0.0, 0.0, 5.0])}
        if x < 0.27:
            return {"call": "set_distance_mode", "mode": r.choice(["absolute", "relative"])}
        if x < 0.32:
            # travel, sometimes with a retraction (added after seed C20d): a rapid carrying an E word is not extruded by the
            # hook but is remembered; the filament position may end up below zero
            d = {"call": "rapid", "ax": [self.num(0, 15), self.num(0, 15), None]}
            if r.random() < 0.5:
                d["E"] = r.choice([-1.5, -0.5, -4.0, 2.0])
                if r.random() < 0.4:
                    d["ax"] = [None, None, None]
            return d
        if x < 0.34:
            return {"call": "set_axis", "ax": [None, None, None], "E": r.choice([-2.0, -0.25])}
        if x < 0.45:
            return self.tracer()
        if x < 0.48:
            self.ext = False
            return {"call": "remove_extrusion_hook"}
        c = r.choice(["move", "move", "move", "move_absolute"])
        ax = [None, None, None]
        for i in r.sample(range(3), r.choice([1, 2, 2, 3])):
            ax[i] = self.num(-7, 7) if c == "move" and r.random() < 0.5 else self.num(0, 15)
        d = {"call": c, "ax": ax}
        if r.random() < 0.2:
            d["F"] = 1200.0
        return d

    def hooks(self):
        r = self.r
        # `with g.move_hook(h):` blocks with registrations changed inside (added after seed C20f: the hook list in force on
        # entry was put back on exit)
        if getattr(self, "mh_open", False):
            if r.random() < 0.35:
                self.mh_open = False
                return {"call": "mh_exit"}
        elif r.random() < 0.08:
            self.mh_open = True
            return {"call": "mh_enter"}
        if not self.hook or r.random() < 0.2:
            self.hook = True
            return {"call": "add_probe_hook", "style": r.randrange(3)}
        if r.random() < 0.1:
            self.hook = False
            return {"call": "remove_probe_hook"}
        return self.motion()

    def fine(self):
        """Motion at 7-8 decimal places (added after seed C01d: a rounding to 6 decimals inside Point): small coordinates and
        no F / S / E words, so that every number stays below 2^31 trace units."""
        r = self.r
        c = r.choice(["move", "move", "rapid", "move_absolute", "set_axis", "set_distance_mode", "rapid_absolute"])
        if c == "set_distance_mode":
            return {"call": c, "mode": r.choice(["absolute", "relative"])}
        ax = [None, None, None]
        for i in r.sample(range(3), r.choice([1, 2, 3])):
            ax[i] = r.uniform(-0.5, 0.5) if c in ("move", "rapid") and r.random() < 0.5 else r.uniform(0, 4)
        return {"call": c, "ax": ax}

    def targeted(self):
        """A call aimed at a bound that is in force (added after seeds C03g / C05g): the limit itself, the value just beyond
        it, a value far outside -- through every door that leads to that bound (setter, wait halt with S or R in either
        letter case, tool power, feed rate)."""
        r = self.r
        names = [n for n in self.bounds if n != "axes" and n != "tool-number"]
        if not names:
            return self.set_bounds()
        name = r.choice(sorted(names))
        lo, hi = self.bounds[name]
        v = r.choice([lo, hi, hi + self.step, hi + 100.0, math.nextafter(hi, math.inf), (lo + hi) / 2 if self.exact is False else hi,
                      lo - self.step if lo > 0 else hi + 2 * self.step])
        if r.random() < 0.3:
            # a value off by a FACTOR rather than by a step (added after seed C03k: the feed limit compared with the speed
            # converted to millimetres once the program is in inches): a unit conversion applied on one side only lets exactly
            # these through -- far below a positive minimum, or a multiple of the maximum
            fs = [hi * 3.0, math.floor(hi * 25.4 / self.step) * self.step]
            if lo > 0:
                fs += [math.floor(lo / 25.4 / self.step) * self.step, math.floor(lo / 10.0 / self.step) * self.step,
                       math.ceil(lo / 3.0 / self.step) * self.step]
            v = r.choice(fs)
            if not name.endswith("-temperature") and r.random() < 0.6:
                # ... with the program in inches around the call (the limits are plain numbers in the program's own units)
                q = self.__dict__.setdefault("queue", [])
                call = ({"call": "set_tool_power", "val": v} if name == "tool-power" else
                        r.choice([{"call": "set_feed_rate", "val": v},
                                  {"call": "move", "ax": [self.num(2, 18) if not getattr(self, "rel", False) else self.num(-3, 3), None, None],
                                   "F": v, "mode": "towards"}]))
                q.extend([call, {"call": "set_length_units", "mode": "millimeters"}])
                return {"call": "set_length_units", "mode": "inches"}
        if name.endswith("-temperature"):
            kind = name[:-12]
            if r.random() < 0.5:
                return {"call": "set_%s_temperature" % kind, "val": v}
            d = {"call": "halt", "mode": "wait-for-" + kind, r.choice(["S", "R"]): v}
            if r.random() < 0.5:
                d["lower"] = True
            return d
        if r.random() < 0.4:
            # the word rides on a move (added after seed C03i: a move refused for its F / S word had already advanced the
            # tracked position): a short move, so that the phantom position stays near where the machine is
            ax = [None, None, None]
            ax[r.randrange(3)] = self.num(2, 18) if not getattr(self, "rel", False) else self.num(-3, 3)
            return {"call": r.choice(["move", "move", "rapid", "probe"]), "ax": ax, ("S" if name == "tool-power" else "F"): v,
                    "mode": "towards"}
        if name == "tool-power":
            return {"call": "set_tool_power", "val": v}
        return {"call": "set_feed_rate", "val": v}

    REPEATABLE = {"move", "rapid", "move_absolute", "rapid_absolute", "set_axis", "probe", "auto_home", "set_feed_rate",
                  "set_tool_power", "set_bed_temperature", "sleep", "set_fan_speed", "query", "comment", "set_plane"}

    def next(self):
        # the previous call once more, verbatim (added after seed C01e: a "modal de-duplication" in write() dropped the second
        # of two identical statements -- in relative mode that is a lost move)
        last = getattr(self, "last", None)
        if last is not None and last["call"] in self.REPEATABLE and self.r.random() < 0.07:
            return dict(last)
        d = self._next()
        self.last = d
        return d

    def convert(self):
        """The conversion queries (beyond the listed properties): a point or an offset with some coordinates left out, an
        absolute point to express in the mode in force, a short list of waypoints of mixed arity."""
        r = self.r
        c = r.choice(["to_absolute", "to_absolute", "to_distance_mode", "to_absolute_list"])
        if c == "to_absolute_list":
            pts = []
            for _ in range(r.randint(1, 4)):
                k = r.choice([2, 3, 3])
                pts.append([self.num(-6, 20) for _ in range(k)])
            return {"call": c, "pts": pts}
        ax = [None, None, None]
        for i in r.sample(range(3), r.choice([0, 1, 2, 3, 3])):
            ax[i] = self.num(-6, 20)
        return {"call": c, "ax": ax}

    def phantom(self):
        """After a refused call, a call that is only acceptable had the refused one taken effect (added after seed C03i: a move
        refused for its F word had already advanced the tracked position; the next relative move was then checked against
        that phantom and took the machine out of the box).  Directed: near the upper wall, a relative step towards the centre
        refused for its feed, then the same step outwards."""
        r = self.r
        out = []
        if "axes" not in self.bounds:
            self.bounds["axes"] = (0.0, 20.0)
            out.append({"call": "set_bounds", "name": "axes", "lo": [0.0, 0.0, 0.0], "hi": [20.0, 20.0, 20.0]})
        if "feed-rate" not in self.bounds:
            self.bounds["feed-rate"] = (100.0, 1000.0)
            out.append({"call": "set_bounds", "name": "feed-rate", "lo": 100.0, "hi": 1000.0})
        lo, hi = self.bounds["feed-rate"]
        i = r.randrange(3)
        near, step = [None, None, None], [None, None, None]
        near[i] = 18.0
        step[i] = float(r.choice([8, 10, 12]))
        back = [None if v is None else -v for v in step]
        out += [{"call": "set_distance_mode", "mode": "absolute"}, {"call": "move", "ax": near},
                {"call": "set_distance_mode", "mode": "relative"},
                {"call": r.choice(["move", "rapid"]), "ax": back, "F": hi + 100.0},       # refused: nothing may change
                {"call": "move", "ax": step},                                              # 18 + step is outside: refused as well
                {"call": "set_distance_mode", "mode": "absolute"}]
        self.rel = False
        return out

    def renarrow(self):
        """Limits set, a value accepted under them, the limits narrowed so that the value is outside, and the same value asked
        for again at once (added after seed C03j: the last accepted value was remembered across the change of limits)."""
        r = self.r
        name = r.choice(["feed-rate", "tool-power"])
        wide, narrow = ((100.0, 3000.0), (100.0, 1000.0)) if name == "feed-rate" else ((0.0, 10000.0), (0.0, 5000.0))
        v = float(r.choice([narrow[1] + 500.0, wide[1], narrow[1] + self.step]))
        def ask():
            if r.random() < 0.5:
                return {"call": "set_feed_rate" if name == "feed-rate" else "set_tool_power", "val": v}
            ax = [None, None, None]
            ax[r.randrange(3)] = self.num(2, 18) if not getattr(self, "rel", False) else self.num(-2, 2)
            return {"call": "move", "ax": ax, ("F" if name == "feed-rate" else "S"): v}
        self.bounds[name] = narrow
        return [{"call": "set_bounds", "name": name, "lo": wide[0], "hi": wide[1]}, ask(),
                {"call": "set_bounds", "name": name, "lo": narrow[0], "hi": narrow[1]}, ask()]

    def dance(self):
        """A word set on a move, changed through its own setter, and set back on a move (added after seed C07h): the second
        move must carry the word again -- two records of 'the value in force' (last move parameter / modal state) exist."""
        r = self.r
        if r.random() < 0.6:
            a, b = self.good_num("feed-rate", 1, 3000), self._good_num("feed-rate", 1, 3000)
            mid = {"call": "set_feed_rate", "val": b}
            key = "F"
        else:
            a, b = self.good_num("tool-power", 0, 1000), self._good_num("tool-power", 0, 1000)
            mid = {"call": "set_tool_power", "val": b}
            key = "S"
        def mv():
            ax = [None, None, None]
            ax[r.randrange(3)] = self.num(0, 20)
            return {"call": "move", "ax": ax, key: a}
        return [mv(), mid, mv()]

    def _next(self):
        q = self.__dict__.setdefault("queue", [])
        if q:
            return q.pop(0)
        if self.profile in ("mixed", "motion", "bounds") and self.r.random() < 0.03:
            q.extend(self.dance())
            return q.pop(0)
        if self.profile in ("mixed", "motion") and self.r.random() < 0.04:
            return self.convert()
        if self.profile == "bounds" and self.depth == 0 and self.r.random() < 0.02:
            q.extend(self.phantom())
            return q.pop(0)
        if self.profile == "bounds" and self.r.random() < 0.02:
            q.extend(self.renarrow())
            return q.pop(0)
        r = self.r
        p = self.profile
        x = r.random()
        if p == "fine":
            return self.fine()
        if p == "motion":
            if x > 0.97:
                # a move hook comes and goes (added after seed C01j: with a hook registered the emitted line carried the absolute
                # target in relative mode); hooks that only add a word of their own do not change where the tool goes
                self.hook = not self.hook
                return {"call": "add_probe_hook", "style": r.randrange(2)} if self.hook else {"call": "remove_probe_hook"}
            if not self.exact and x < 0.12:
                return self.tracer()
            return self.motion() if x < 0.9 else (self.set_bounds() if x < 0.92 else self.modal())
        if p == "interlock":
            return self.interlock() if x < 0.7 else (self.motion() if x < 0.85 else (self.set_bounds() if x < 0.9 else self.modal()))
        if p == "bounds":
            if x < 0.12:
                return self.set_bounds()
            if x < 0.15 and self.dp != 0:        # (added after seed C03d) a hook that returns a new dict with F and S tripled
                self.scaled = not getattr(self, "scaled", False)
                return {"call": "add_scale_hook" if self.scaled else "remove_scale_hook"}
            if x < 0.23:
                return self.targeted()
            return self.motion() if x < 0.6 else (self.interlock() if x < 0.8 else self.modal())
        if p == "hooks":
            if not self.exact and x < 0.15:      # interpolated vertices are not on the exact grid
                return self.tracer()
            return self.hooks() if x < 0.85 else self.modal()
        if p == "extrusion":
            return self.extrusion()
        # mixed
        if x < 0.06:
            return self.set_bounds()
        if x < 0.13:
            return self.targeted()
        if x < 0.45:
            return self.motion()
        if x < 0.75:
            return self.interlock()
        if x < 0.8:
            return self.hooks()
        return self.modal()


def random_trace(seed, profile="mixed", n=None, dp=None, exact=True, fail_rate=0.15):
    rng = random.Random(seed)
    if dp is None:
        dp = rng.choice([0, 1, 2, 3, 3])
    n = n or rng.randint(25, 60)
    gen = Gen(rng, dp, exact, profile, fail_rate)
    s = Session(dp=dp, exact=exact)
    descs = []
    for _ in range(n):
        d = gen.next()
        descs.append(d)
        s.apply(d)
    while s.ctx:
        d = {"call": "ctx_exit", "flag": False}
        descs.append(d)
        s.apply(d)
    return s.trace({"driver": "random", "profile": profile, "seed": seed}), descs


def run_descs(descs, dp=3, exact=True, meta=None):
    s = Session(dp=dp, exact=exact)
    for d in descs:
        s.apply(d)
    return s.trace(meta or {})
