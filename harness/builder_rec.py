"""Recorder for the builder family: executes call descriptors on a real
GCodeBuilder through its public API and records, after every call (also on the
error path), the emitted lines (tokenised) and the full public snapshot.

Numbers are carried as q-records {k, v, s}:
  k  "n" finite | "none" | "nan" | "pinf" | "ninf" | "big" (|x*U| >= 2^31)
  v  nearest integer to x*U (U = 10^dp trace units), ties to even
  s  sign of (x*U - v) computed exactly: with (v, s) the specification can
     order the value exactly against any number on the unit grid.
"""
import math
from fractions import Fraction

import numpy as np

AXL = ("X", "Y", "Z")
PARAM_LETTERS = ("F", "S", "E", "A", "B", "I", "P", "R")
NONE_Q = {"k": "none", "v": 0, "s": 0, "t": False}
BIG = 2 ** 31 - 2


def qnum(x, U):
    if x is None:
        return dict(NONE_Q)
    if isinstance(x, (np.generic,)):
        x = x.item()
    if isinstance(x, bool):
        x = int(x)
    if isinstance(x, str):
        return {"k": "str", "v": 0, "s": 0, "t": False}
    if isinstance(x, float):
        if x != x:
            return {"k": "nan", "v": 0, "s": 0, "t": False}
        if x == math.inf:
            return {"k": "pinf", "v": 0, "s": 0, "t": False}
        if x == -math.inf:
            return {"k": "ninf", "v": 0, "s": 0, "t": False}
    fr = Fraction(x) * U
    v = round(fr)
    if abs(v) >= BIG:
        return {"k": "big", "v": 0, "s": 1 if fr > 0 else -1, "t": False}
    # s orders x against the double nearest to the decimal grid value v/U,
    # which is how the code compares x with a bound written as that decimal
    xg = Fraction(float(Fraction(int(v), U)))
    fx = Fraction(x)
    frac = fr - math.floor(fr)
    return {"k": "n", "v": int(v), "s": (fx > xg) - (fx < xg),
            "t": abs(frac - Fraction(1, 2)) < Fraction(1, 10 ** 6)}


def split_comment(text, style=";"):
    """Split one output line (no line ending) into (code, has_comment)."""
    if style == ";":
        i = text.find(";")
        if i >= 0:
            return text[:i], True
        return text, False
    if style == "(":
        i = text.find("(")
        if i >= 0:
            j = text.find(")", i)
            if j >= 0:
                return text[:i] + " " + text[j + 1:], True
            return text[:i], True
        return text, False
    raise ValueError(style)


def tokenize(code, U, labels=None):
    """Words of the executable part of a line. G/M values in tenths, others in
    trace units; `ok` is False when the text is not an exact decimal on the
    unit grid (the specification then treats the word as malformed)."""
    words = []
    for tok in code.split():
        j = 0
        while j < len(tok) and tok[j].isalpha():
            j += 1
        letter, num = tok[:j].upper(), tok[j:]
        if labels and letter in labels:
            letter = labels[letter]
        ok = True
        v = 0
        try:
            if not letter or not num or any(c in num for c in "eEnNiI+ "):
                raise ValueError
            fr = Fraction(num)
            scaled = fr * (10 if letter in ("G", "M") else U)
            if scaled.denominator != 1 or abs(scaled) >= BIG:
                ok = False
                v = int(round(scaled)) if abs(scaled) < BIG else 0
            else:
                v = int(scaled)
        except (ValueError, ZeroDivisionError):
            ok = False
        words.append({"l": letter if letter else "?", "v": v, "ok": ok})
    return words


class RecWriter:
    """A custom writer registered through the public add_writer()."""

    def __init__(self):
        from gscrib.writers import BaseWriter  # noqa: F401 (documented base)
        self.chunks = []

    def make(self):
        from gscrib.writers import BaseWriter
        outer = self

        class _W(BaseWriter):
            def connect(self):
                return self

            def disconnect(self, wait=True):
                pass

            def write(self, statement):
                outer.chunks.append(bytes(statement))

            def flush(self):
                pass

        return _W()

    def take(self):
        c, self.chunks = self.chunks, []
        return c


ENUM_FIELDS = (
    ("spin", "spin_mode"), ("pmode", "power_mode"), ("coolant", "coolant_mode"),
    ("swap", "tool_swap_mode"), ("halt", "halt_mode"), ("units", "length_units"),
    ("plane", "plane"), ("fmode", "feed_mode"), ("emode", "extrusion_mode"),
    ("tunits", "temperature_units"), ("timeunits", "time_units"), ("dir", "direction"),
)

BOUND_NAMES = (("feed", "feed-rate"), ("power", "tool-power"), ("toolnum", "tool-number"),
               ("bed", "bed-temperature"), ("hotend", "hotend-temperature"),
               ("chamber", "chamber-temperature"))


class Session:
    """One recorded history on one real builder."""

    def __init__(self, dp=3, exact=True, line_endings="\n", builder_kwargs=None, with_raw=False, with_xf=False):
        from gscrib import GCodeBuilder
        self.dp = dp
        self.U = 10 ** dp
        self.exact = exact
        kw = dict(decimal_places=dp, line_endings=line_endings)
        if builder_kwargs:
            kw.update(builder_kwargs)
        self.eol = line_endings.encode().decode("unicode-escape") if line_endings != "os" else "\n"
        self.g = GCodeBuilder(**kw)
        # drop the default console writer through the public API
        try:
            while True:
                self.g.remove_writer(self.g.get_writer(0))
        except IndexError:
            pass
        self.rw = RecWriter()
        self.g.add_writer(self.rw.make())
        # a second writer behind the recording one: it accepts everything, except that it raises DeviceError once when armed
        # (a device link that fails on one statement; the recording writer has received the line by then)
        self.fault_armed = False
        self.g.add_writer(self._make_fault_writer())
        self.probe_on = False               # the recorder's own bookkeeping of add_hook / remove_hook
        self.mh = []                        # open move_hook() context managers
        self._decoy(dp)
        self.g.set_resolution(1.0)          # interpolated paths stay short (tens of segments, not thousands)
        self.ctx = []
        self.raw_text = []
        self.events = []
        self.hook_log = []
        self.with_raw = with_raw
        self.with_xf = with_xf
        self.xf_scale = 1 if exact else 10000      # integer sub-group: the linear part is integral
        self.xf_cms = []                           # open transform contexts
        self.probe_hook = None
        self.scale_hook = None
        self.ext_hook = None
        self.ext_params = {"lh": 200, "nd": 400, "fd": 1750}
        try:
            import logging
            logging.getLogger().setLevel(logging.ERROR)        # gcoder warns about every line without a G/M word
            from gscrib.printrun import gcoder
            self.gc = gcoder.GCode([])
        except Exception:
            self.gc = None
        self.init_rep = self.snapshot()

    def _make_fault_writer(self):
        from gscrib.excepts import DeviceError
        from gscrib.writers import BaseWriter
        outer = self

        class _F(BaseWriter):
            def connect(self):
                return self

            def disconnect(self, wait=True):
                pass

            def write(self, statement):
                if outer.fault_armed:
                    outer.fault_armed = False
                    raise DeviceError("link failed on this statement")

            def flush(self):
                pass
        return _F()

    def _decoy(self, dp):
        """Another builder, configured differently, living next to the one under test and used a little: nothing of it may
        show in the recorded one (added after seed C01f: a formatter shared through a mutable default argument)."""
        from gscrib import GCodeBuilder
        d = GCodeBuilder(decimal_places=(dp + 2) % 7, comment_symbols="(", line_endings="\\r\\n", x_axis="A", y_axis="B", z_axis="C")
        try:
            while True:
                d.remove_writer(d.get_writer(0))
        except IndexError:
            pass
        d.add_writer(RecWriter().make())
        d.set_distance_mode("relative")
        d.move(x=1.2345678, F=321.5)
        d.transform.translate(5, 5, 5)
        d.set_bounds("feed-rate", 1, 2)
        self.decoy = d

    # ------------------------------------------------------------------ state
    def snapshot(self):
        g, st, U = self.g, self.g.state, self.U
        rep = {
            "pos": [qnum(c, U) for c in g.position],
            "spos": [qnum(c, U) for c in st.position],
            "rel": g.distance_mode.value == "relative",
            "srel": st.distance_mode.value == "relative",
            "feed": qnum(st.feed_rate, U),
            "power": qnum(st.tool_power, U),
            "tool": bool(st.is_tool_active),
            "coolact": bool(st.is_coolant_active),
            "toolnum": qnum(st.tool_number, U),
            "res": qnum(st.resolution, U),
            "bed": qnum(st.target_bed_temperature, U),
            "hotend": qnum(st.target_hotend_temperature, U),
            "chamber": qnum(st.target_chamber_temperature, U),
        }
        for key, attr in ENUM_FIELDS:
            rep[key] = str(getattr(st, attr).value)
        rep["params"] = {p: qnum(g.get_parameter(p), U) for p in AXL + PARAM_LETTERS}
        rep["sparams"] = {p: qnum(st.get_parameter(p), U) for p in AXL + PARAM_LETTERS}
        b = {}
        lo, hi = st.get_bounds("axes")
        if lo is None:
            b["axes"] = {"set": False, "lo": [0, 0, 0], "hi": [0, 0, 0]}
        else:
            b["axes"] = {"set": True, "lo": [qnum(c, U)["v"] for c in lo], "hi": [qnum(c, U)["v"] for c in hi]}
        for key, name in BOUND_NAMES:
            lo, hi = st.get_bounds(name)
            if lo is None:
                b[key] = {"set": False, "lo": 0, "hi": 0}
            else:
                b[key] = {"set": True, "lo": qnum(lo, U)["v"], "hi": qnum(hi, U)["v"]}
        rep["bounds"] = b
        return rep

    # ------------------------------------------------------------------ hooks
    def _make_probe_hook(self, style=None):
        log = self.hook_log
        U = self.U
        if style is None:
            style = len(self.events) % 3               # decided by when the hook is first registered
        newdict = style >= 1
        drops = style == 2                             # a filter: returns a NEW dict that omits a word (added after seed C20h)
        calls = [0]                                    # calls of this hook so far (the per-event log is cleared between events)

        def probe_hook(origin, target, params, state):
            tag = params.get("A")
            log.append({
                "o": [qnum(c, U) for c in origin],
                "t": [qnum(c, U) for c in target],
                "pin": {p: qnum(params.get(p), U) for p in PARAM_LETTERS},
            })
            # the hook returns a parameter of its own so the specification can
            # check that what is returned is what is emitted and remembered;
            # both styles the hook contract allows: update in place, or return a new dict
            if newdict:
                params = dict(params)
            calls[0] += 1
            # which moves lose their feed word is a function of the move itself (not of how often the hook ran: a refused
            # call consults the hooks too, and the differential runs of C05 leave refused calls out)
            tx = target[0] if target[0] is not None else 0.0
            if drops and int(round(abs(tx) * 10)) % 2 == 0:
                # every other move goes out without its feed word (a "dry run" / "keep the modal feed" filter): what the hook
                # left out must be neither emitted nor remembered
                log[-1]["dropped"] = any(k.upper() == "F" for k in params)
                params = {k: v for k, v in params.items() if k.upper() != "F"}
            params.update(B=1.0)
            log[-1]["pout"] = {p: qnum(params.get(p), U) for p in PARAM_LETTERS}
            return params

        if style == 1:
            # registered and removed as a BOUND METHOD (added after seed C20i: removal by identity): every access to obj.on_move
            # is a new object that is equal to, but not the same as, the one that was registered
            class _Obj:
                def on_move(self, origin, target, params, state):
                    return probe_hook(origin, target, params, state)
            self.probe_obj = _Obj()
        return probe_hook

    def _the_probe_hook(self):
        obj = getattr(self, "probe_obj", None)
        return obj.on_move if obj is not None else self.probe_hook

    # ------------------------------------------------------------------ calls
    def _args(self, d):
        U = self.U
        ax = d.get("ax") or [None, None, None]
        a = {
            "ax": [qnum(c, U) for c in ax],
            "F": qnum(d.get("F"), U), "S": qnum(d.get("S"), U), "E": qnum(d.get("E"), U),
            "R": qnum(d.get("R"), U),
            "mode": str(d.get("mode", "")),
            "val": qnum(d.get("val"), U), "val2": qnum(d.get("val2"), U),
            "name": str(d.get("name", "")),
            "lo": qnum(d.get("lo"), U) if not isinstance(d.get("lo"), (list, tuple)) else dict(NONE_Q),
            "hi": qnum(d.get("hi"), U) if not isinstance(d.get("hi"), (list, tuple)) else dict(NONE_Q),
            "lo3": [qnum(c, U) for c in (d.get("lo") if isinstance(d.get("lo"), (list, tuple)) else [None] * 3)],
            "hi3": [qnum(c, U) for c in (d.get("hi") if isinstance(d.get("hi"), (list, tuple)) else [None] * 3)],
            "flag": bool(d.get("flag", False)),
            "haspt": bool(d.get("haspt", False)),
        }
        return a

    def _move_kwargs(self, d):
        kw = {}
        ax = d.get("ax") or [None, None, None]
        if d.get("haspt"):
            kw["point"] = tuple(ax)
        else:
            for name, c in zip("xyz", ax):
                if c is not None:
                    kw[name] = c
        for p in ("F", "S", "E", "R", "A"):
            if d.get(p) is not None:
                kw[p.lower() if d.get("lower") else p] = d[p]     # parameter letters are case-insensitive
        if d.get("comment") is not None:
            kw["comment"] = d["comment"]
        return kw

    def _dispatch(self, d):
        g = self.g
        c = d["call"]
        if c in ("move", "rapid", "move_absolute", "rapid_absolute", "set_axis", "auto_home"):
            kw = self._move_kwargs(d)
            pt = kw.pop("point", None)
            return getattr(g, c)(pt, **kw) if pt is not None else getattr(g, c)(**kw)
        if c == "probe":
            kw = self._move_kwargs(d)
            pt = kw.pop("point", None)
            return g.probe(d["mode"], pt, **kw) if pt is not None else g.probe(d["mode"], **kw)
        if c in ("to_absolute", "to_distance_mode"):
            # conversion queries (beyond the listed properties; the tracer is built on them): nothing is written, nothing changes
            from gscrib.geometry import Point
            r = getattr(g, c)(Point(*d["ax"]))
            self.conv = [[qnum(x, self.U)["v"] for x in r]]
            return None
        if c == "to_absolute_list":
            rs = g.to_absolute_list([tuple(p) for p in d["pts"]])
            self.conv = [[qnum(x, self.U)["v"] for x in r] for r in rs]
            return None
        if c == "set_distance_mode":
            return g.set_distance_mode(d["mode"])
        if c == "ctx_enter":
            cm = g.absolute_mode() if d["mode"] == "absolute" else g.relative_mode()
            cm.__enter__()
            self.ctx.append(cm)
            return None
        if c == "ctx_exit":
            cm = self.ctx.pop()
            if d.get("flag"):
                exc = RuntimeError("body raised")
                suppressed = cm.__exit__(RuntimeError, exc, None)
                if suppressed:
                    raise AssertionError("context manager swallowed the exception")
            else:
                cm.__exit__(None, None, None)
            return None
        if c in ("tool_on", "power_on"):
            return getattr(g, c)(d["mode"], d["val"])
        if c in ("tool_off", "power_off", "coolant_off", "wait"):
            return getattr(g, c)()
        if c == "coolant_on":
            return g.coolant_on(d["mode"])
        if c == "tool_change":
            return g.tool_change(d["mode"], int(d["val"]))
        if c == "halt":
            kw = {}
            if d.get("S") is not None:
                kw["s" if d.get("lower") else "S"] = d["S"]
            if d.get("R") is not None:
                kw["r" if d.get("lower") else "R"] = d["R"]
            return g.halt(d["mode"], **kw)
        if c == "pause":
            return g.pause(bool(d.get("flag")))
        if c == "stop":
            return g.stop(bool(d.get("flag")))
        if c == "emergency_halt":
            return g.emergency_halt(d.get("text", "stop"), bool(d.get("flag")))
        if c in ("set_tool_power", "set_feed_rate", "set_bed_temperature", "set_hotend_temperature",
                 "set_chamber_temperature", "sleep", "set_resolution"):
            return getattr(g, c)(d["val"])
        if c == "set_fan_speed":
            return g.set_fan_speed(d["val"], int(d.get("val2") or 0))
        if c in ("set_length_units", "set_plane", "set_feed_mode", "set_extrusion_mode",
                 "set_time_units", "set_temperature_units", "set_direction", "query"):
            return getattr(g, c)(d["mode"])
        if c == "set_bounds":
            return g.set_bounds(d["name"], d["lo"], d["hi"])
        if c == "comment":
            return g.comment(d.get("text", "note"))
        if c == "add_probe_hook":
            if self.probe_hook is None:
                self.probe_hook = self._make_probe_hook(d.get("style"))
            self.probe_on = True
            return g.add_hook(self._the_probe_hook())
        if c == "remove_probe_hook":
            self.probe_on = False
            if self.probe_hook is not None:
                return g.remove_hook(self._the_probe_hook())
            return None
        if c == "mh_enter":
            # `with g.move_hook(h):` opened; hooks added or removed inside the block must survive its end
            cm = g.move_hook(lambda origin, target, params, state: params)
            cm.__enter__()
            self.mh.append(cm)
            return None
        if c == "mh_exit":
            if self.mh:
                self.mh.pop().__exit__(None, None, None)
            return None
        if c == "add_scale_hook":
            # a user hook that RETURNS A NEW DICT with F and S multiplied by three (the hook contract allows either style):
            # what is validated, emitted and remembered must be the hook's result
            if self.scale_hook is None:
                def scale_hook(origin, target, params, state):
                    out = dict(params)
                    for key in ("F", "S"):
                        if out.get(key) is not None:
                            out[key] = out[key] * 3
                    return out
                self.scale_hook = scale_hook
            return g.add_hook(self.scale_hook)
        if c == "remove_scale_hook":
            if self.scale_hook is not None:
                g.remove_hook(self.scale_hook)
            return None
        if c == "add_extrusion_hook":
            from gscrib.hooks import extrusion_hook
            if self.ext_hook is not None:
                g.remove_hook(self.ext_hook)
            self.ext_hook = extrusion_hook(d["lh"], d["nd"], d["fd"])
            self.ext_params = {"lh": int(round(d["lh"] * 1000)), "nd": int(round(d["nd"] * 1000)), "fd": int(round(d["fd"] * 1000))}
            return g.add_hook(self.ext_hook)
        if c == "remove_extrusion_hook":
            if self.ext_hook is not None:
                g.remove_hook(self.ext_hook)
                self.ext_hook = None
            return None
        if c == "trace":
            return self._trace(d)
        if c.startswith("xf_"):
            t = g.transform
            k = c[3:]
            if k == "translate":
                return t.translate(*d["v"])
            if k == "rotate":
                return t.rotate(d["angle"], d["axis"])
            if k == "scale":
                return t.scale(*d["v"])
            if k == "mirror":
                return t.mirror(d["plane"])
            if k == "reflect":
                return t.reflect(list(d["normal"]))
            if k == "set_pivot":
                return t.set_pivot(tuple(d["P"]))
            if k == "save":
                return t.save_state()
            if k == "restore":
                return t.restore_state()
            if k == "save_named":
                return t.save_state(d["name"])
            if k in ("ctx_enter", "ctx_named_enter"):
                # `with g.current_transform():` / `with g.named_transform(name):` opened here, closed by a later xf_ctx_exit
                cm = g.current_transform() if k == "ctx_enter" else g.named_transform(d["name"])
                cm.__enter__()
                self.xf_cms.append(cm)
                return None
            if k == "ctx_exit":
                if self.xf_cms:
                    self.xf_cms.pop().__exit__(None, None, None)
                return None
        raise KeyError("unknown call %r" % c)

    def _auto_request(self, d):
        """Build a geometrically valid request from the builder's public position and distance mode:
        the descriptor carries only shape parameters (centre offset, sweep, heights)."""
        import math as _m
        g = self.g
        pos = g.position.resolve()
        rel = g.distance_mode.value == "relative"
        a = d["auto"]
        shape = d["shape"]

        def out(p):
            return [p[0] - pos.x, p[1] - pos.y, p[2] - pos.z] if rel else list(p)
        if shape in ("arc", "circle", "helix"):
            cx, cy = a["c"]
            r = _m.hypot(cx, cy)
            a0 = _m.atan2(-cy, -cx)
            if shape == "circle":
                return dict(d, center=[cx, cy])
            r1 = r if shape == "arc" else max(0.5, r + a.get("dr", 0.0))
            a1 = a0 + a["sweep"]
            tgt = [pos.x + cx + r1 * _m.cos(a1), pos.y + cy + r1 * _m.sin(a1), pos.z + a.get("dz", 0.0)]
            return dict(d, target=out(tgt), center=[cx, cy], turns=a.get("turns", 1))
        if shape in ("spiral", "thread", "arc_radius"):
            tgt = [pos.x + a["t"][0], pos.y + a["t"][1], pos.z + a.get("dz", 0.0)]
            return dict(d, target=out(tgt), turns=a.get("turns", 1), pitch=a.get("pitch", 1.0), radius=a.get("radius", 10.0))
        pts, prev = [], [pos.x, pos.y, pos.z]
        for off in a["offs"]:
            p = [prev[0] + off[0], prev[1] + off[1], prev[2] + off[2]]
            pts.append(off if rel else p)
            prev = p
        return dict(d, targets=pts, points=pts)

    def _trace(self, d):
        if d.get("auto") is not None:
            d = self._auto_request(d)
        t = self.g.trace
        shape = d["shape"]
        kw = dict(d.get("kw") or {})
        if shape == "arc":
            return t.arc(tuple(d["target"]), tuple(d["center"]), **kw)
        if shape == "arc_radius":
            return t.arc_radius(tuple(d["target"]), d["radius"], **kw)
        if shape == "circle":
            return t.circle(tuple(d["center"]), **kw)
        if shape == "spline":
            return t.spline([tuple(p) for p in d["targets"]], **kw)
        if shape == "helix":
            return t.helix(tuple(d["target"]), tuple(d["center"]), d["turns"], **kw)
        if shape == "thread":
            return t.thread(tuple(d["target"]), d["pitch"], **kw)
        if shape == "spiral":
            return t.spiral(tuple(d["target"]), d["turns"], **kw)
        if shape == "polyline":
            return t.polyline([tuple(p) for p in d["points"]], **kw)
        raise KeyError(shape)

    def lines_of(self, chunks):
        lines = []
        for ch in chunks:
            text = ch.decode("utf-8", errors="replace")
            self.raw_text.append(text)
            self._feed_gcoder(text)
            # a chunk is one write(); split on the configured ending, keep anomalies visible
            body = text[:-len(self.eol)] if text.endswith(self.eol) else text
            parts = body.replace("\r\n", "\n").replace("\r", "\n").split("\n")
            for part in parts:
                code, has_comment = split_comment(part)
                ln = {"ws": tokenize(code, self.U), "c": has_comment}
                if self.with_raw:
                    ln["raw"] = list(ch)
                lines.append(ln)
        return lines

    def _feed_gcoder(self, text):
        """The bundled printrun.gcoder analyser follows the emitted program line by line (GcoderTrace.tla)."""
        if self.gc is None:
            return
        try:
            for ln in text.splitlines():
                if ln.strip():
                    self.gc.append(ln, store=False)
        except Exception:
            self.gc = None

    def gcoder_state(self):
        a, k = self.gc, self.U * 10
        if a is None:
            return {"ok": False, "abs": [0, 0, 0], "rel": False, "rele": False, "imp": False, "e": 0, "f": 0}
        return {"ok": True, "abs": [int(round(a.abs_x * k)), int(round(a.abs_y * k)), int(round(a.abs_z * k))],
                "rel": bool(a.relative), "rele": bool(a.relative_e), "imp": bool(a.imperial),
                "e": int(round(a.abs_e * k)), "f": int(round((a.current_f or 0) * k))}

    def observe_xf(self):
        """The map in force, through the public apply_transform(): linear part scaled 1e4, translation in trace units."""
        # on a COPY of the transformer: observing must not touch anything the real one remembers between calls (added after
        # seed C04g, a memo of the last transformed point that the recorder's own probing kept refreshing)
        import copy as _copy
        t = _copy.deepcopy(self.g.transform)
        o = t.apply_transform((0.0, 0.0, 0.0))
        cols = [t.apply_transform(e) for e in ((1.0, 0.0, 0.0), (0.0, 1.0, 0.0), (0.0, 0.0, 1.0))]
        a = [[int(round((cols[j][i] - o[i]) * self.xf_scale)) for j in range(3)] for i in range(3)]
        return {"a": a, "b": [int(round(c * self.U)) for c in o]}

    def apply(self, d):
        eh_before = self.ext_hook is not None
        fault = bool(d.get("fault"))
        self.fault_armed = fault
        sh_before = self.scale_hook is not None and self._hook_registered(self.scale_hook)      # in force DURING this call
        self.hook_log.clear()
        self.conv = []
        xf = self.observe_xf() if self.with_xf else None
        out = "ok"
        try:
            self._dispatch(d)
        except Exception as e:  # every exception type is an outcome to be judged by the contract
            out = type(e).__name__
        fault = fault and not self.fault_armed     # it counts only if the armed writer was reached
        self.fault_armed = False
        ev = {
            "call": d["call"] if d["call"] != "trace" else "trace_" + d["shape"],
            "out": out,
            "a": self._args(d),
            "lines": self.lines_of(self.rw.take()),
            "rep": self.snapshot(),
            "hooks": [dict(h) for h in self.hook_log],
            "conv": list(self.conv),
            "pts": [[qnum(x, self.U) for x in (list(p) + [None] * (3 - len(p)))] for p in d.get("pts", [])],
            "ph": self.probe_on,                      # after the call, by the recorder's own bookkeeping of add_hook / remove_hook
            "fault": fault,
            # a hook that alters what was asked for was at work: the scale hook in force, or the filter hook dropped a word
            "sh": sh_before or any(h.get("dropped") for h in self.hook_log),
            "eh": bool(self.ext_hook is not None and eh_before),
            "ehp": dict(self.ext_params),
            "gc": self.gcoder_state(),
        }
        if xf is not None:
            ev["xf"] = xf
        self.events.append(ev)
        return ev

    def _hook_registered(self, hook):
        # public behaviour: add_hook is idempotent, so registration can be observed without internals
        # by the recorder's own bookkeeping
        return hook in getattr(self.g, "_hooks", [])

    def gcoder_view(self):
        """Cross-oracle: where the bundled printrun.gcoder analyser says the emitted program ends (drift only)."""
        try:
            from gscrib.printrun import gcoder
            a = gcoder.GCode([])
            for t in self.raw_text:
                for ln in t.splitlines():
                    if ln.strip():
                        a.append(ln, store=False)
            return {"ok": True, "pos": [qnum(a.current_x, self.U)["v"], qnum(a.current_y, self.U)["v"], qnum(a.current_z, self.U)["v"]],
                    "rel": bool(a.relative)}
        except Exception:
            return {"ok": False, "pos": [0, 0, 0], "rel": False}

    def trace(self, meta=None):
        m = {"dp": self.dp, "U": self.U, "exact": self.exact, "xf": self.with_xf, "SC": self.xf_scale,
             "gcoder": self.gcoder_view()}
        if meta:
            m.update(meta)
        return {"meta": m, "init": self.init_rep, "ev": self.events}
