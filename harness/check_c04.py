"""C04 -- coordinate transforms are applied faithfully to every move."""
import copy
import random

from . import flow, tlaval, tlc
from .builder_check import tla_set
from .builder_rec import Session

S = 10000
MAPS = {
    "id": ([[S, 0, 0], [0, S, 0], [0, 0, S]], [0, 0, 0], []),
    "rotz+tx": ([[0, -S, 0], [S, 0, 0], [0, 0, S]], [1, 0, 0],
                [{"call": "xf_rotate", "angle": 90.0, "axis": "z"}, {"call": "xf_translate", "v": [1.0, 0.0, 0.0]}]),
    "scale": ([[2 * S, 0, 0], [0, -S, 0], [0, 0, S]], [0, 2, -1],
              [{"call": "xf_scale", "v": [2.0, -1.0, 1.0]}, {"call": "xf_translate", "v": [0.0, 2.0, -1.0]}]),
    "roty": ([[0, 0, S], [0, S, 0], [-S, 0, 0]], [0, 0, 0], [{"call": "xf_rotate", "angle": 90.0, "axis": "y"}]),
}


def tla_map(a, b):
    return "[a |-> <<%s>>, b |-> <<%s>>]" % (", ".join("<<%s>>" % ", ".join(map(str, r)) for r in a), ", ".join(map(str, b)))


def model(maps, ax, coords, deltas, props=True):
    defs = {"cMaps": "{" + ", ".join(tla_map(MAPS[m][0], MAPS[m][1]) for m in maps) + "}", "cAx": tla_set(ax),
            "cCoords": tla_set(coords), "cDeltas": tla_set(deltas)}
    root = tlc.wrapper("MCXformMove", "XformMoveImpl", defs)
    cfg = ["SPECIFICATION Spec", "CONSTANTS", " Maps <- cMaps", " AxUsed <- cAx", " Coords <- cCoords",
           " Deltas <- cDeltas", "VIEW view", "CONSTRAINT Bounded"]
    if props:
        cfg += ["PROPERTY AP_Words", "PROPERTY AP_Mentions", "PROPERTY AP_Bypass", "PROPERTY AP_Keeps"]
    return root, "\n".join(cfg) + "\n"


def key_of(xf):
    for k, (a, b, _) in MAPS.items():
        if [list(r) for r in xf["a"]] == a and list(xf["b"]) == b:
            return k
    raise KeyError(xf)


def desc_from_ev(ev):
    c = ev["call"]
    ax = [float(q["v"]) if q["k"] == "n" else None for q in ev["a"]["ax"]]
    if c == "set_distance_mode":
        return None
    if c == "probe":
        return {"call": c, "mode": "towards", "ax": ax}
    return {"call": c, "ax": ax}


def _one_xf(rng, exact):
    k = rng.choice(["translate", "rotate", "scale", "mirror"])
    if k == "translate":
        return {"call": "xf_translate", "v": [float(rng.randint(-3, 3)) for _ in range(3)] if exact else [rng.uniform(-4, 4) for _ in range(3)]}
    if k == "rotate":
        return {"call": "xf_rotate", "angle": float(rng.choice([90, 180, 270])) if exact else rng.uniform(-180, 180), "axis": rng.choice("xyz")}
    if k == "scale":
        return {"call": "xf_scale", "v": rng.choice([[2.0], [-1.0], [1.0, 2.0, -1.0]])}
    return {"call": "xf_mirror", "plane": rng.choice(["xy", "yz", "zx"])}


def _one_move(rng, exact):
    ax = [None, None, None]
    for i in rng.sample(range(3), rng.choice([1, 1, 2, 3])):
        ax[i] = float(rng.randint(-4, 4)) if exact else round(rng.uniform(-4, 4), rng.choice([1, 2]))
    return {"call": rng.choice(["move", "move", "rapid"]), "ax": ax}


def random_descs(rng, n, exact):
    out = []
    depth, named = 0, []
    hooked = False
    for _ in range(n):
        x = rng.random()
        if x > 0.97:
            # a move hook is registered (or removed) while a transform is in force (added after seed C04i: the hook loop rebuilt
            # the target from the REQUESTED coordinates); the hook only adds a word of its own
            hooked = not hooked
            out.append({"call": "add_probe_hook" if hooked else "remove_probe_hook"})
            continue
        if x < 0.08:
            # a transform context (added after seed C04g): `with g.current_transform():` / `with g.named_transform(name):`, a
            # change of the frame and moves inside, and -- what matters -- moves right after the block, under the outer frame
            if depth and rng.random() < 0.6:
                depth -= 1
                out.append({"call": "xf_ctx_exit"})
                out += [_one_move(rng, exact) for _ in range(rng.choice([1, 1, 2]))]
            elif depth < 2:
                if not named or rng.random() < 0.3:
                    nm = rng.choice(["a", "b"])
                    out += [{"call": "xf_save"}, _one_xf(rng, exact), {"call": "xf_save_named", "name": nm}, {"call": "xf_restore"}]
                    named.append(nm)
                depth += 1
                if rng.random() < 0.5:
                    out += [{"call": "xf_ctx_enter"}, _one_xf(rng, exact)]
                else:
                    out.append({"call": "xf_ctx_named_enter", "name": rng.choice(named)})
                out += [_one_move(rng, exact) for _ in range(rng.choice([1, 2]))]
            continue
        if x < 0.25:
            k = rng.choice(["translate", "rotate", "scale", "mirror", "reflect", "set_pivot", "save", "restore"])
            if k == "translate":
                out.append({"call": "xf_translate", "v": [float(rng.randint(-3, 3)) for _ in range(3)] if exact else [rng.uniform(-4, 4) for _ in range(3)]})
            elif k == "rotate":
                out.append({"call": "xf_rotate", "angle": float(rng.choice([90, 180, 270])) if exact else rng.uniform(-180, 180), "axis": rng.choice("xyz")})
            elif k == "scale":
                out.append({"call": "xf_scale", "v": rng.choice([[2.0], [-1.0], [1.0, 2.0, -1.0]]) if exact else [rng.choice([-1, 1]) * rng.uniform(0.5, 2) for _ in range(rng.randint(1, 3))]})
            elif k == "mirror":
                out.append({"call": "xf_mirror", "plane": rng.choice(["xy", "yz", "zx"])})
            elif k == "reflect":
                n3 = [0.0, 0.0, 0.0]
                if exact:
                    n3[rng.randint(0, 2)] = 1.0
                else:
                    n3 = [rng.uniform(-1, 1) for _ in range(3)]
                out.append({"call": "xf_reflect", "normal": n3})
            elif k == "set_pivot":
                out.append({"call": "xf_set_pivot", "P": [float(rng.randint(-2, 2)) for _ in range(3)]})
            else:
                out.append({"call": "xf_" + k})
        elif x < 0.33:
            out.append({"call": "set_distance_mode", "mode": rng.choice(["absolute", "relative"])})
        else:
            c = rng.choice(["move", "move", "rapid", "probe", "move_absolute", "rapid_absolute"])
            ax = [None, None, None]
            for i in rng.sample(range(3), rng.choice([1, 1, 2, 3])):
                ax[i] = float(rng.randint(-4, 4)) if exact else round(rng.uniform(-4, 4), rng.choice([1, 2, 6]))
            d = {"call": c, "ax": ax}
            if c == "probe":
                d["mode"] = rng.choice(["towards", "away"])
            if rng.random() < 0.2:
                d["F"] = 100.0
            out.append(d)
    while depth:
        depth -= 1
        out.append({"call": "xf_ctx_exit"})
        out.append(_one_move(rng, exact))
    return out


def far_descs(rng):
    """Integer sub-group, coordinates of a few hundred mm, steps of one or two output units: an unrequested axis
    whose machine coordinate changes by very little still has to be mentioned."""
    out = [{"call": "xf_translate", "v": [float(rng.randint(100, 300)), float(rng.randint(100, 300)), 0.0]},
           {"call": "xf_rotate", "angle": float(rng.choice([90, 180, 270])), "axis": rng.choice("xyz")}]
    base = [float(rng.randint(100, 300)) for _ in range(3)]
    out.append({"call": "move", "ax": list(base)})
    for _ in range(rng.randint(6, 14)):
        i = rng.randint(0, 2)
        base[i] = round(base[i] + rng.choice([0.001, -0.001, 0.002, 0.005, 0.01]), 3)
        ax = [None, None, None]
        ax[i] = base[i]
        out.append({"call": rng.choice(["move", "rapid"]), "ax": ax})
        if rng.random() < 0.2:
            out.append({"call": "set_distance_mode", "mode": "absolute"})
    return out


def run_descs(descs, exact, meta=None):
    s = Session(dp=2, exact=exact, with_xf=True)
    for d in descs:
        s.apply(d)
    return s.trace(meta)


class P(flow.Plan):
    pid = "C04"
    clauses = ["C04_Words", "C04_Mentions", "C04_Bypass", "C04_Keeps"]
    trace_module = "XformMoveTrace"
    assumptions = ["the map in force is observed through apply_transform() on 0,e1,e2,e3 (whether that map is the right one is C13)",
                   "float runs: decimal_places=2, |coordinates| <= 20 units, tolerance 1.5 output units; integer sub-group: exact"]

    def extra(self, tier, sd):
        """C04_Map -- 'the image under THAT transform': the map observed through apply_transform() is the composition the
        translate / rotate / scale / reflect / mirror calls define.  Decided by TransformTrace's independent 4x4 integer model
        (clause C13_Matrix) on transform histories of the integer sub-group (added after seed C04c: a two-factor scale())."""
        import copy as _c
        import random as _r
        from . import check_c13, xform_rec
        n = 120 if tier == "thorough" else 30
        traces, inputs = [], []
        for i in range(n):
            rng = _r.Random(sd * 6007 + i)
            exact = i % 3 != 2
            descs = xform_rec.random_descs(rng, rng.randint(8, 20), True) if exact else \
                (xform_rec.rotation_descs(rng) if i % 2 else xform_rec.scale_descs(rng))
            traces.append(xform_rec.run_descs(descs, exact, {"driver": "random", "seed": sd * 6007 + i}))
            inputs.append({"exact": exact, "descs": descs})
        cp = check_c13.P()
        ctl = [c for c in cp.controls(traces) if c["meta"]["control"]["clause"] == "C13_Matrix"][:1]
        failures, done, _ = flow.validate(cp, traces + ctl)
        if ctl and not [f for f in failures if f[0] == len(traces) and f[2] == "C13_Matrix"]:
            raise flow.MachineryError("C04_Map: the planted wrong matrix was not detected")
        checks = sum((done[i][1] or {}).get("C13_Matrix", 0) + (done[i][1] or {}).get("C13_Angle", 0) + (done[i][1] or {}).get("C13_Scale", 0) for i in range(len(traces)))
        if checks == 0:
            raise flow.MachineryError("C04_Map never exercised")
        out, seen = [], set()
        for f in failures:
            if f[0] < len(traces) and f[2] in ("C13_Matrix", "C13_Angle", "C13_Scale") and f[0] not in seen:
                seen.add(f[0])
                out.append({"clause": "C04_Map", "step": f[1], "meta": traces[f[0]]["meta"], "input": inputs[f[0]],
                            "failing_event": {"call": traces[f[0]]["ev"][f[1] - 1].get("call"), "descs": inputs[f[0]]["descs"][:f[1]]}})
        return out, {"C04_Map": {"histories": len(traces), "chain_calls_checked": checks, "violations": len(out),
                                 "negative_control_detected": bool(ctl)}}

    def model_runs(self, tier):
        if tier == "thorough":
            root, cfg = model(["id", "rotz+tx", "scale", "roty"], [1], [0, 2], [1])      # 64 k states; two coordinate values no longer finish
        else:
            root, cfg = model(["id", "rotz+tx", "scale"], [1], [0, 2], [1])
        return [("xform-moves", "MCXformMove", cfg, root, [])]

    def behaviours(self, tier, sd):
        root, cfg = model(["id", "rotz+tx", "scale", "roty"], [1, 2, 3], [-1, 0, 1, 2], [-1, 1, 2], props=False)
        nb = 300 if tier == "thorough" else 50
        r, files = tlc.simulate("MCXformMove", cfg, num=nb, depth=20, seed=sd % (2 ** 31), root_text=root)
        traces, inputs = [], []
        for f in files:
            states = tlaval.parse_behaviour_file(f)
            descs = []
            cur = key_of(states[0][1]["xf"])
            descs += MAPS[cur][2]
            rel = False
            for _, st in states[1:]:
                ev = st["ev"]
                if ev["call"] == "set_transform":
                    # back to identity, then chain the generators of the chosen map
                    descs.append({"call": "xf_restore_identity"})
                    descs += MAPS[key_of(st["xf"])][2]
                elif ev["call"] == "set_distance_mode":
                    rel = not rel
                    descs.append({"call": "set_distance_mode", "mode": "relative" if rel else "absolute"})
                else:
                    descs.append(desc_from_ev(ev))
            traces.append(self._run(descs, True, {"driver": "tlc-behaviour"}))
            inputs.append({"exact": True, "descs": descs})
        return traces, inputs, {}

    def _run(self, descs, exact, meta, dp=2):
        s = Session(dp=dp, exact=exact, with_xf=True)
        s.apply({"call": "xf_save"})
        for d in descs:
            if d["call"] == "xf_restore_identity":
                s.apply({"call": "xf_restore"})
                s.apply({"call": "xf_save"})
            else:
                s.apply(d)
        return s.trace(meta)

    def executions(self, tier, sd):
        n = 800 if tier == "thorough" else 150
        traces, inputs = [], []
        for i in range(n):
            rng = random.Random(sd * 104729 + i)
            exact = i % 2 == 0
            far = i % 6 == 0
            descs = far_descs(rng) if far else random_descs(rng, rng.randint(12, 35), exact)
            traces.append(self._run(descs, exact, {"driver": "random-far" if far else "random", "seed": sd * 104729 + i}, dp=3 if far else 2))
            inputs.append({"exact": exact, "descs": descs, "dp": 3 if far else 2})
        return traces, inputs

    def replay(self, payload):
        inp = payload["input"]
        return [self._run(inp["descs"], inp["exact"], {"driver": "replay"}, dp=inp.get("dp", 2))], [inp]

    def controls(self, base):
        descs = [{"call": "xf_rotate", "angle": 90.0, "axis": "z"}, {"call": "xf_translate", "v": [1.0, 0.0, 0.0]},
                 {"call": "move", "ax": [2.0, 1.0, 0.0]},            # 4 (after the initial xf_save)
                 {"call": "move", "ax": [3.0, None, None]},          # 5
                 {"call": "move_absolute", "ax": [1.0, None, None]}, # 6
                 {"call": "move", "ax": [2.0, 2.0, None]},           # 7
                 {"call": "move", "ax": [None, 3.0, None]}]          # 8
        b = self._run(descs, True, {"driver": "control-base"})

        def mut(clause, step, fn):
            t = copy.deepcopy(b)
            fn(t["ev"][step - 1])
            t["meta"]["control"] = {"clause": clause, "step": step}
            return t

        def bumpw(e, i, by):
            e["lines"][0]["ws"][i]["v"] += by

        return [mut("C04_Words", 4, lambda e: bumpw(e, 1, 100)),
                mut("C04_Mentions", 5, lambda e: e["lines"][0]["ws"].__delitem__(2)),
                mut("C04_Bypass", 6, lambda e: bumpw(e, 1, 100)),
                mut("C04_Keeps", 8, lambda e: e["rep"]["pos"][1].__setitem__("v", e["rep"]["pos"][1]["v"] + 100))]


def run(pid, tier, replay=None):
    if replay:
        import json
        with open(replay) as fh:
            payload = json.load(fh)
        if payload.get("clause") == "C04_Map":              # decided by TransformTrace: re-execute that history
            from . import check_c13, xform_rec
            from .common import EXIT_OK, EXIT_VIOLATION, say
            inp = payload["input"]
            traces = [xform_rec.run_descs(inp["descs"], inp.get("exact", True), {"driver": "replay"})]
            failures, _, _ = flow.validate(check_c13.P(), traces)
            bad = [f for f in failures if f[2] in ("C13_Matrix", "C13_Angle", "C13_Scale")]
            if bad:
                say("VIOLATION property=C04 replay=%s" % replay)
                say("  clause C04_Map false at step %d" % bad[0][1])
                return EXIT_VIOLATION
            say("C04 replay: C04_Map held on this history")
            return EXIT_OK
    return flow.run(P(), tier, replay)
