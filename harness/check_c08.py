"""C08 -- every emitted line is one well-formed block with faithful numbers."""
import copy
import math
import random
from decimal import Decimal

import numpy as np

from . import flow, tlc
from .builder_rec import RecWriter
from .check_c09 import STYLES

EOLS = {"\n": "\\n", "\r\n": "\\r\\n", "\r": "\\r"}


def dec(x):
    """exact decimal expansion of a finite number -> {neg, ip, fp}"""
    d = Decimal(x) if not isinstance(x, Decimal) else x
    sign, digits, exp = d.as_tuple()
    digits = list(digits)
    if exp >= 0:
        ip, fp = digits + [0] * exp, []
    else:
        k = -exp
        if len(digits) <= k:
            digits = [0] * (k - len(digits) + 1) + digits
        ip, fp = digits[:-k], digits[-k:]
    while len(ip) > 1 and ip[0] == 0:
        ip.pop(0)
    return {"neg": bool(sign) and any(digits), "ip": ip or [0], "fp": fp}


def ulp_of(x):
    if isinstance(x, (int, np.integer)):
        return dec(0)
    if isinstance(x, np.floating):
        return dec(Decimal(float(np.spacing(np.abs(x)))))
    return dec(Decimal(math.ulp(abs(float(x)))))


def exact_of(x):
    if isinstance(x, (int, np.integer)):
        return dec(Decimal(int(x)))
    return dec(Decimal(float(x)))


CMDS = [  # (name, letter, signed?, call(g, v))
    ("move_x", "X", True, lambda g, v: g.move(x=v)),
    ("move_y", "Y", True, lambda g, v: g.move(y=v, F=100)),
    ("rapid_z", "Z", True, lambda g, v: g.rapid(z=v)),
    ("move_E", "E", True, lambda g, v: g.move(x=1, E=v)),
    ("move_F", "F", False, lambda g, v: g.move(x=1, F=v)),
    ("move_abs_x", "X", True, lambda g, v: g.move_absolute(x=v)),
    ("set_axis_x", "X", True, lambda g, v: g.set_axis(x=v)),
    ("probe_z", "Z", True, lambda g, v: g.probe("towards", z=v)),
    ("set_feed_rate", "F", False, lambda g, v: g.set_feed_rate(v)),
    ("set_tool_power", "S", False, lambda g, v: g.set_tool_power(v)),
    ("tool_on", "S", False, lambda g, v: g.tool_on("clockwise", v)),
    ("power_on", "S", False, lambda g, v: g.power_on("constant", v)),
    ("set_bed_temperature", "S", True, lambda g, v: g.set_bed_temperature(v)),
    ("set_hotend_temperature", "S", True, lambda g, v: g.set_hotend_temperature(v)),
    ("halt_S", "S", True, lambda g, v: g.halt("wait-for-bed", S=v)),
    ("sleep", "P", False, lambda g, v: g.sleep(v)),
    ("move_I", "I", True, lambda g, v: g.move(x=1, I=v)),
    # added after seed C08b (set_fan_speed rounded its S word): every remaining builder call that writes a number
    ("set_fan_speed", "S", False, lambda g, v: g.set_fan_speed(v)),
    ("set_fan_speed_n", "S", False, lambda g, v: g.set_fan_speed(v, 2)),
    ("set_chamber_temperature", "S", True, lambda g, v: g.set_chamber_temperature(v)),
    ("halt_hotend_S", "S", True, lambda g, v: g.halt("wait-for-hotend", S=v)),
    ("halt_chamber_S", "S", True, lambda g, v: g.halt("wait-for-chamber", S=v)),
    ("probe_F", "F", False, lambda g, v: g.probe("away", z=1, F=v)),
    ("auto_home_y", "Y", True, lambda g, v: g.auto_home(y=v)),
    ("rapid_abs_z", "Z", True, lambda g, v: g.rapid_absolute(z=v)),
    ("set_axis_E", "E", True, lambda g, v: g.set_axis(E=v)),
    ("move_S", "S", False, lambda g, v: g.move(x=1, S=v)),
    ("rapid_J", "J", True, lambda g, v: g.rapid(y=2, J=v)),
    # "followed by at most one comment", "terminated exactly once": calls that carry free comment text with line breaks in it
    # (added after seed C08d); what the text may DO is C09, here only the shape of the emitted lines is judged
    ("move_x_cmt_lf", "X", True, lambda g, v: g.move(x=v, comment="first pass\nsecond line")),
    ("move_x_cmt_cr", "X", True, lambda g, v: g.move(x=v, comment="a\rb\r\nc")),
    ("set_axis_x_cmt", "X", True, lambda g, v: g.set_axis(x=v, comment="zero\n here")),
    ("probe_z_cmt", "Z", True, lambda g, v: g.probe("towards", z=v, comment="touch\r\noff")),
]


def values(rng, signed, n):
    out = [0.0, -0.0, 1e15 if signed else 1e15, 5e-324, 2.2250738585072014e-308, 0.5, 0.05, 0.005, 0.0005, 0.00005, 5e-06, 0.125, 0.375,
           2.5, 1.5, 127.5, 254.9995, 200.125, 0.15, 0.25, 0.35, 1.005, 2.675, 9.995, 99.9995, 999999.9999995, 1, 7, 10 ** 15, np.float32(0.1), np.float64(1e-7),
           np.int64(42), 123456789.123456789, 1e-10, 0.1 + 0.2, 1 / 3, 2 / 3, 1e22 if False else 1e14 + 0.5,
           # numpy scalars that are NOT Python floats, small enough for str() to choose exponent notation, and non-finite ones
           # (added after seed C08e); a command whose signature refuses the type simply does not count
           np.float32(1e-5), np.float32(3.5e-7), np.float16(0.0001), np.longdouble(1e-6), np.float32(12345.678),
           np.float32("nan"), np.float32("inf"), np.int32(7), np.uint8(200)]
    for _ in range(n):
        mag = rng.uniform(-12, 15)
        out.append(rng.uniform(1, 10) * 10 ** mag)
        out.append(round(rng.uniform(0, 1000), rng.randint(0, 8)))
        out.append(rng.randint(0, 10 ** rng.randint(1, 15)))
    if signed:
        out = out + [-v for v in out[2::3]]
    return out


def make_builder(cfg):
    from gscrib import GCodeBuilder
    g = GCodeBuilder(decimal_places=cfg["dp"], comment_symbols=cfg["style"], line_endings=cfg["eol"] if cfg.get("raw_eol") else EOLS[cfg["eol"]],
                     x_axis=cfg["labels"][0], y_axis=cfg["labels"][1], z_axis=cfg["labels"][2])
    try:
        while True:
            g.remove_writer(g.get_writer(0))
    except IndexError:
        pass
    rw = RecWriter()
    g.add_writer(rw.make())
    return g, rw


def run_case(cfg, cmd, v, live=None):
    """One call with one number under test; `live` = (builder, writer) reuses a builder whose formatter was reconfigured."""
    name, letter, signed, fn = cmd
    g, rw = live or make_builder(cfg)
    rw.take()
    res = "ok"
    try:
        fn(g, v)
    except Exception as e:
        res = type(e).__name__
    out = b"".join(rw.take())
    notnum = isinstance(v, (float, np.floating)) and not math.isfinite(float(v))
    # a signature that refuses the TYPE (np.float32 where a float is declared) is outside the property
    nonfinite = notnum and res != "TypeCheckError"
    lab = dict(zip("XYZ", cfg["labels"])).get(letter, letter)
    zero = {"neg": False, "ip": [0], "fp": []}
    return {"cmd": name, "letters": list(lab.encode()), "x": zero if notnum else exact_of(v), "ulp": zero if notnum else ulp_of(v),
            "nonfinite": nonfinite, "out": list(out), "res": res, "repr": repr(v), "dp": cfg["dp"]}


def meta_of(cfg):
    o, c = STYLES[cfg["style"]]
    return {"dp": cfg["dp"], "eol": list(cfg["eol"].encode()), "style": {"open": list(o.encode()), "close": list(c.encode())},
            "labels": cfg["labels"], "stylename": cfg["style"]}


class P(flow.Plan):
    pid = "C08"
    clauses = ["C08_Lines", "C08_Value", "C08_NonFinite"]
    trace_module = "FormatTrace"
    heap = "4g"
    assumptions = ["'the value requested' is the double passed by the caller; tolerance 1/2 unit of the last place + ulp(x), on exact digit sequences",
                   "string-valued parameters are outside the property and are not driven"]

    def model_runs(self, tier):
        ms = "0..130 \\cup {125, 250, 375, 500, 625, 750, 875, 985, 990, 995, 996, 997, 998, 999}" if tier != "thorough" else "0..999"
        root = tlc.wrapper("MCFormat", "FormatImpl", {"cMs": ms, "cExps": "-6..0", "cDPs": "0..6"})
        cfg = "\n".join(["SPECIFICATION Spec", "CONSTANTS", " Ms <- cMs", " Exps <- cExps", " DPs <- cDPs",
                         "INVARIANT WellFormed", "INVARIANT FaithfulValue"]) + "\n"
        return [("render", "MCFormat", cfg, root, [])]

    def behaviours(self, tier, sd):
        # every case of the rendering model is replayed through the real formatter (via move(x=...))
        rng = random.Random(sd)
        traces, inputs = [], []
        ms = list(range(0, 131)) + [125, 250, 375, 500, 625, 750, 875, 985, 990, 995, 996, 997, 998, 999]
        if tier != "thorough":
            ms = ms[::3] + [125, 375, 995, 999, 5, 15, 25]
        for dp in range(0, 7):
            cfg = {"dp": dp, "style": ";", "eol": "\n", "labels": ["X", "Y", "Z"]}
            ev = []
            for e in range(-6, 1):
                for m in ms:
                    v = float(Decimal(m).scaleb(e))
                    ev.append(run_case(cfg, CMDS[0], v if (m + e) % 2 else -v))
            traces.append({"meta": meta_of(cfg), "ev": ev})
            inputs.append({"cfg": cfg, "cases": [[e["cmd"], e["repr"]] for e in ev][:50]})
        return traces, inputs, {}

    def executions(self, tier, sd):
        traces, inputs = [], []
        n = 12 if tier == "thorough" else 3
        k = 0
        for dp in ([0, 1, 2, 3, 4, 5, 6, 8, 10, 12] if tier == "thorough" else [0, 2, 3, 5, 8, 12]):
            for style in ([";", "(", "/*", "#"] if tier == "thorough" else [";", "("]):
                k += 1
                rng = random.Random(sd * 31 + k)
                # the ending in its escaped spelling or as real control characters (raw; added after seed C08g)
                cfg = {"dp": dp, "style": style, "eol": rng.choice(["\n", "\r\n", "\r\n", "\r"]), "raw_eol": k % 2 == 0,
                       # relabelings that reuse an axis NAME for another axis (added after seed C08h: exchanged X / Y, a lathe's
                       # Y <-> Z, a three-cycle, a shift) besides foreign letters
                       "labels": rng.choice([["X", "Y", "Z"], ["A", "B", "C"], ["U", "V", "W"], ["Y", "X", "Z"], ["X", "Z", "Y"],
                                             ["Z", "X", "Y"], ["A", "X", "Y"]])}
                ev = []
                for cmd in CMDS:
                    vals = values(rng, cmd[2], n)
                    vals += [float("nan"), float("inf"), float("-inf")]
                    for v in vals:
                        if not cmd[2] and isinstance(v, (int, float, np.number)) and not (v != v) and v < 0:
                            continue
                        ev.append(run_case(cfg, cmd, v))
                traces.append({"meta": meta_of(cfg), "ev": ev})
                inputs.append({"cfg": cfg, "cases": len(ev)})
        # the precision is reconfigured on a living builder (g.format.set_decimal_places) and the same values are written
        # again (added after seed C08c: a cache of formatted numbers that survived the change)
        for r in range(6 if tier == "thorough" else 2):
            rng = random.Random(sd * 53 + r)
            cfg = {"dp": 3, "style": ";", "eol": "\n", "labels": ["X", "Y", "Z"]}
            live = make_builder(cfg)
            vals = [1.23456, 0.5, 2.675, 1234.56789, 0.000049, 99.9995, 7, rng.uniform(0, 100), rng.uniform(0, 1)]
            cmds = [CMDS[0], CMDS[4], CMDS[8], CMDS[12], next(c for c in CMDS if c[0] == "set_fan_speed")]
            ev = []
            for dp in rng.sample([0, 1, 2, 4, 5, 6], 4) + [1, 5]:
                live[0].format.set_decimal_places(dp)
                c2 = dict(cfg, dp=dp)
                for cmd in cmds:
                    for v in vals:
                        ev.append(run_case(c2, cmd, v, live))
            m = meta_of(cfg)
            m["reconfigured"] = True
            traces.append({"meta": m, "ev": ev})
            inputs.append({"cfg": cfg, "cases": len(ev), "reconfigured": True})
        # the axis letters are changed on a living builder (g.rename_axis, also to the NAME of another axis), and the whole
        # formatter is replaced (g.set_formatter with another precision and other letters): what is written afterwards follows
        # the configuration in force -- two public entry points no other run reaches
        from gscrib.formatters import DefaultFormatter
        for r in range(4 if tier == "thorough" else 2):
            rng = random.Random(sd * 59 + r)
            cfg = {"dp": 3, "style": ";", "eol": "\n", "labels": ["X", "Y", "Z"]}
            live = make_builder(cfg)
            g = live[0]
            vals = [1.23456, -0.5, 2.675, 1234.56789, 7, rng.uniform(-100, 100)]
            cmds = [c for c in CMDS if c[0] in ("move_x", "move_y", "rapid_z", "set_axis_x", "auto_home_y", "probe_z", "move_F")]
            ev, labels, dp = [], ["X", "Y", "Z"], 3
            steps = [("rename", "x", "A"), ("rename", "y", "X"), ("formatter", 1, ["U", "V", "W"]), ("rename", "z", "U"),
                     ("formatter", 5, ["Y", "X", "Z"]), ("rename", "x", "X")]
            rng.shuffle(steps)
            for st in steps:
                if st[0] == "rename":
                    g.rename_axis(st[1], st[2])
                    labels = list(labels)
                    labels["xyz".index(st[1])] = st[2]
                else:
                    f = DefaultFormatter()
                    f.set_decimal_places(st[1])
                    f.set_line_endings("\\n")
                    for ax, lab in zip("xyz", st[2]):
                        f.set_axis_label(ax, lab)
                    g.set_formatter(f)
                    dp, labels = st[1], list(st[2])
                if len(set(labels)) < 3:
                    continue                  # two axes under one letter: nothing well-defined to expect, not driven
                c2 = dict(cfg, dp=dp, labels=labels)
                for cmd in cmds:
                    for v in vals:
                        ev.append(run_case(c2, cmd, v, live))
            m = meta_of(cfg)
            m["reconfigured"] = True
            traces.append({"meta": m, "ev": ev})
            inputs.append({"cfg": cfg, "cases": len(ev), "reconfigured": True, "relabelled": True})
        return traces, inputs

    def replay(self, payload):
        raise NotImplementedError("replay: rerun ./check C08; cases are deterministic for a seed")

    def sample(self, t):
        return {"meta": t["meta"], "ev": [{"cmd": e["cmd"], "value": e["repr"], "out": bytes(e["out"]).decode("utf-8", "replace"), "res": e["res"]} for e in t["ev"][:6]]}

    def brief(self, trace, step):
        e = trace["ev"][step - 1]
        return {"meta": trace["meta"], "cmd": e["cmd"], "value": e["repr"], "out": bytes(e["out"]).decode("utf-8", "replace"), "res": e["res"]}

    def controls(self, base):
        cfg = {"dp": 3, "style": ";", "eol": "\n", "labels": ["X", "Y", "Z"]}
        e1 = run_case(cfg, CMDS[0], 1.2345)      # "G1 X1.234" or 1.235 -> plant 1.236
        e1["out"] = list(b"G1 X1.236\n")
        e2 = run_case(cfg, CMDS[0], 2.5)
        e2["out"] = list(b"G1 X2.5e0\n")
        e3 = run_case(cfg, CMDS[0], 2.5)
        e3["out"] = list(b"G1 X2.5\n\n")
        e4 = run_case(cfg, CMDS[8], float("nan"))
        e4["res"], e4["out"] = "ok", list(b"Fnan\n")
        out = []
        for i, (e, c) in enumerate([(e1, "C08_Value"), (e2, "C08_Lines"), (e3, "C08_Lines"), (e4, "C08_NonFinite")]):
            m = meta_of(cfg)
            m["control"] = {"clause": c, "step": 1}
            out.append({"meta": m, "ev": [e]})
        return out


def run(pid, tier, replay=None):
    return flow.run(P(), tier, replay)
