"""C09 -- comment text can never change what the machine executes."""
import copy
import itertools
import random

from . import flow, tlc
from .builder_rec import RecWriter

STYLES = {";": (";", ""), "(": ("(", ")"), "[": ("[", "]"), "<": ("<", ">"), '"': ('"', '"'), "'": ("'", "'"),
          "/*": ("/*", "*/"), "//": ("//", ""), "#": ("#", "")}
ENTRIES = ["comment", "comment_args", "annotate", "move", "rapid", "move_absolute", "set_axis", "probe", "auto_home",
           "emergency_halt", "rapid_absolute",
           # traced curves carry their extra keyword arguments, the comment among them, to every segment (added after seed C09i)
           "trace_arc", "trace_polyline", "trace_spline"]


def tokens(style):
    o, c = STYLES[style]
    base = ["a", " ", "\n", "\r", "\r\n", ";", "(", ")", "M3 S1", o]
    if c:
        base.append(c)
        if len(c) > 1:
            # pieces of a multi-character closer and the closer nested in itself ("**//"): removing one
            # occurrence must not assemble another
            base += [c[0], c[-1], c[0] + c + c[1:]]
    if len(o) > 1:
        base += [o[0], o[-1]]
    seen, out = set(), []
    for t in base:
        if t not in seen:
            seen.add(t)
            out.append(t)
    return out


def lookalikes(style):
    """Characters that are not delimiters but that a 'helpful' transliteration (NFKC/NFKD, ASCII folding) turns into one:
    fullwidth and small-form variants of the style's symbols, of ';' and of the line breaks (added after seed C09c)."""
    o, c = STYLES[style]
    out = []
    for sym in (c, o, ";"):
        if sym:
            out.append("".join(chr(ord(ch) + 0xFEE0) if 0x21 <= ord(ch) <= 0x7E else ch for ch in sym))      # fullwidth forms
    out += ["\ufe5a", "\ufe5e", "\ufe54", "\u2028", "\u2029", "\x85", "\x0b", "\x0c", "\u201d", "\u2019"]
    return out


def _emit(g, entry, text):
    if entry == "comment":
        g.comment(text)
    elif entry == "comment_args":
        g.comment("note", text, 5)
    elif entry == "annotate":
        g.annotate("key", text)
    elif entry in ("move", "rapid", "move_absolute", "rapid_absolute", "set_axis"):
        getattr(g, entry)(x=3.0, comment=text)
    elif entry == "probe":
        g.probe("towards", z=-1.0, comment=text)
    elif entry == "auto_home":
        g.auto_home(x=0.0, comment=text)
    elif entry == "emergency_halt":
        g.emergency_halt(text)
    elif entry.startswith("trace_"):
        _trace(g, entry, text)


def _trace(g, entry, text):
    g.set_resolution(1.0)
    if entry == "trace_arc":
        g.trace.arc((4.0, 0.0), (2.0, 0.0), comment=text)
    elif entry == "trace_polyline":
        g.trace.polyline([(1.0, 1.0), (2.0, 0.0)], comment=text)
    else:
        g.trace.spline([(1.0, 2.0), (3.0, 2.0), (4.0, 0.0)], comment=text)


def run_entry(style, entry, text, eol="\n", pre_style=None, bad_reconf=False):
    """pre_style: the builder lived under another comment style first and wrote the same text there; the style was then
    changed with g.format.set_comment_symbols() -- only what is written AFTER the change is returned (and judged under `style`)."""
    from gscrib import GCodeBuilder
    g = GCodeBuilder(comment_symbols=pre_style or style, line_endings={"\n": "\\n", "\r\n": "\\r\\n"}[eol], decimal_places=3)
    try:
        while True:
            g.remove_writer(g.get_writer(0))
    except IndexError:
        pass
    rw = RecWriter()
    g.add_writer(rw.make())
    if pre_style:
        try:
            _emit(g, entry, text)
        except Exception:
            pass
        if entry == "emergency_halt":
            g.move(x=0.5)
        g.format.set_comment_symbols(style)
        rw.take()
    if bad_reconf:
        # a reconfiguration the formatter refuses must leave the style in force untouched (added after seed C09f: a refused
        # set_comment_symbols() had already replaced the closer filter)
        for sym in ("{", "", "{}"):
            try:
                g.format.set_comment_symbols(sym)
                g.format.set_comment_symbols(style)      # accepted after all: put the style under test back
            except Exception:
                pass
    res = "ok"
    try:
        g.move(x=1.0, y=2.0)
        if entry == "comment":
            g.comment(text)
        elif entry == "comment_args":
            g.comment("note", text, 5)
        elif entry == "annotate":
            g.annotate("key", text)
        elif entry in ("move", "rapid", "move_absolute", "rapid_absolute", "set_axis"):
            getattr(g, entry)(x=3.0, comment=text)
        elif entry == "probe":
            g.probe("towards", z=-1.0, comment=text)
        elif entry == "auto_home":
            g.auto_home(x=0.0, comment=text)
        elif entry == "emergency_halt":
            g.emergency_halt(text)
        elif entry.startswith("trace_"):
            _trace(g, entry, text)
        g.move(x=5.0)
    except Exception as e:
        res = type(e).__name__
    return b"".join(rw.take()), res


def case(style, entry, text, eol="\n", pre_style=None, bad_reconf=False):
    out, res = run_entry(style, entry, text, eol, pre_style, bad_reconf)
    ref, refres = run_entry(style, entry, "x", eol, pre_style, bad_reconf)
    return {"out": list(out), "ref": list(ref), "res": res, "refres": refres, "entry": entry,
            "text": list(text.encode("utf-8", "replace"))}


def model(sanitize, maxtoks):
    def b(s):
        return "<<" + ", ".join(str(x) for x in s.encode()) + ">>"
    styles = "{" + ", ".join("[open |-> %s, close |-> %s]" % (b(o), b(c)) for o, c in STYLES.values()) + "}"
    toks = sorted({t for st in STYLES for t in tokens(st)})
    defs = {"cStyles": styles, "cTokens": "{" + ", ".join(b(t) for t in toks) + "}"}
    root = tlc.wrapper("MCComment", "CommentSafetyImpl", defs)
    cfg = "\n".join(["SPECIFICATION Spec", "CONSTANTS", " Styles <- cStyles", " Tokens <- cTokens", " MaxToks = %d" % maxtoks,
                     " Sanitize = %s" % ("TRUE" if sanitize else "FALSE"), "INVARIANT CommentStaysComment"]) + "\n"
    return root, cfg


class P(flow.Plan):
    pid = "C09"
    clauses = ["C09_Same", "C09_Lines"]
    trace_module = "CommentSafetyTrace"
    assumptions = ["a machine cuts lines at CR/LF and removes comments under the CONFIGURED style only",
                   "the innocuous reference text is 'x'; both runs start from the same fresh builder"]

    def model_runs(self, tier):
        root, cfg = model(True, 3 if tier == "thorough" else 2)
        root0, cfg0 = model(False, 2)
        return [("template-sanitized", "MCComment", cfg, root, []),
                ("template-F6", "MCComment", cfg0, root0, ["CommentStaysComment"])]

    def executions(self, tier, sd):
        traces, inputs = [], []
        rng = random.Random(sd)
        for style in STYLES:
            o, c = STYLES[style]
            toks = tokens(style)
            for entry in ENTRIES:
                depth = 3 if (entry == "comment" and tier == "thorough") else 2
                payloads = [""]
                for k in range(1, depth + 1):
                    payloads += ["".join(p) for p in itertools.product(toks, repeat=k)]
                if tier != "thorough" and entry not in ("comment", "move"):
                    payloads = [p for i, p in enumerate(payloads) if i % 3 == (sd + len(entry)) % 3]
                for _ in range(6):
                    payloads.append("".join(rng.choice(["é", "中", " ", "\x0b", "\x85", "G28", "\n", c or ";", o, " ", "\t", "{}", "{0}", "%s"])
                                            for _ in range(rng.randint(1, 6))))
                for la in lookalikes(style):
                    payloads += [la + "M3 S1", "a " + la + "G0 Z-5 " + (c or ""), la + la]
                # texts that are themselves wrapped in the configured delimiters, with a closer and a payload inside
                # (added after seed C09e: "already a comment, keep it as it is")
                if c:
                    payloads += [o + "a" + c + " M3 S1 " + o + "b" + c, o + c + "G0 Z-50" + o + c, o + " first" + c + "\nG28 " + o + "x" + c,
                                 o + "a" + c, o + o + "a" + c + " M112 " + c]
                else:
                    payloads += [o + "a\nM3 S1 " + o + "b", o + " a " + o]
                ev = [case(style, entry, p, "\r\n" if (len(p) + len(entry)) % 5 == 0 else "\n") for p in payloads]
                # the comment style is changed on a living builder that has already written the same text under another
                # style (added after seed C09d: a memoised sanitiser that survived set_comment_symbols())
                if entry in ("comment", "move", "annotate", "emergency_halt"):
                    for p in [t1 + t2 for t1 in toks for t2 in toks][::5] + [(c or "\n") + " M112 " + o]:
                        ev.append(case(style, entry, p, "\n", None, True))
                    for pre in rng.sample([st for st in STYLES if st != style], 2):
                        for p in [t1 + t2 for t1 in toks for t2 in toks][::4] + [(c or "\n") + " M112 " + o, "a" + (c or ";") + "M3 S1"]:
                            ev.append(case(style, entry, p, "\n", pre))
                traces.append({"meta": {"style": {"open": list(o.encode()), "close": list(c.encode())}, "entry": entry, "stylename": style}, "ev": ev})
                inputs.append({"style": style, "entry": entry, "payloads": payloads})
        return traces, inputs

    def replay(self, payload):
        inp = payload["input"]
        o, c = STYLES[inp["style"]]
        ev = [case(inp["style"], inp["entry"], p) for p in inp["payloads"]]
        return [{"meta": {"style": {"open": list(o.encode()), "close": list(c.encode())}, "entry": inp["entry"], "stylename": inp["style"]}, "ev": ev}], [inp]

    def sample(self, t):
        return {"meta": t["meta"], "ev": [{"text": bytes(e["text"]).decode("utf-8", "replace"), "out": bytes(e["out"]).decode("utf-8", "replace")} for e in t["ev"][:4]]}

    def brief(self, trace, step):
        e = trace["ev"][step - 1]
        return {"style": trace["meta"]["stylename"], "entry": e["entry"], "text": bytes(e["text"]).decode("utf-8", "replace"),
                "out": bytes(e["out"]).decode("utf-8", "replace"), "ref": bytes(e["ref"]).decode("utf-8", "replace")}

    def controls(self, base):
        o, c = STYLES["("]
        ev = [case("(", "move", "hello")]
        t1 = {"meta": {"style": {"open": list(o.encode()), "close": list(c.encode())}, "entry": "move", "stylename": "(", "control": {"clause": "C09_Same", "step": 1}}, "ev": copy.deepcopy(ev)}
        t1["ev"][0]["out"] = list(bytes(t1["ev"][0]["out"]).replace(b"hello", b"a ) M3 S1 ( b"))
        t2 = {"meta": {"style": {"open": [59], "close": []}, "entry": "move", "stylename": ";", "control": {"clause": "C09_Lines", "step": 1}}, "ev": [case(";", "move", "hello")]}
        t2["ev"][0]["out"] = list(bytes(t2["ev"][0]["out"]).replace(b"hello", b"he\nG28"))
        return [t1, t2]


def run(pid, tier, replay=None):
    return flow.run(P(), tier, replay)
