from .check_tracer import run as _run


def run(pid, tier, replay=None):
    return _run(pid, tier, replay)
