"""C13 -- transform states are saved, restored and inverted exactly."""
import copy
import random

from . import flow, tlaval, tlc, xform_rec
from .builder_check import tla_set


def tla_rec(d):
    def one(v):
        if isinstance(v, str):
            return '"%s"' % v
        if isinstance(v, (list, tuple)):
            return "<<" + ", ".join(one(x) for x in v) + ">>"
        if isinstance(v, dict):
            return tla_rec(v)
        return str(v)
    return "[" + ", ".join("%s |-> %s" % (k, one(v)) for k, v in d.items()) + "]"


def gen(call, **kw):
    a = {"v": [0, 0, 0], "axis": "z", "k": 0, "plane": "xy", "n": 1, "name": "A", "P": [0, 0, 0]}
    a.update(kw)
    return {"call": call, "a": a}


GENS_SMALL = [gen("translate", v=[1, 0, 0]), gen("rotate", axis="z", k=1), gen("rotate", axis="x", k=2),
              gen("scale", v=[2, 2, 2]), gen("scale", v=[-1, 1, 1]), gen("mirror", plane="zx")]
GENS_BIG = GENS_SMALL + [gen("translate", v=[0, -2, 1]), gen("rotate", axis="y", k=3), gen("reflect", n=3),
                         gen("mirror", plane="xy"), gen("scale", v=[1, 2, -1])]


def model(gens, pivots, names, maxstack, maxctx, maxchain, alias, props=True):
    defs = {"cGens": "{" + ", ".join(tla_rec(g) for g in gens) + "}", "cPivots": tla_set(pivots), "cNames": tla_set(names)}
    root = tlc.wrapper("MCTransform", "TransformImpl", defs)
    cfg = ["SPECIFICATION Spec", "CONSTANTS", " Gens <- cGens", " Pivots <- cPivots", " Names <- cNames",
           " MaxStack = %d" % maxstack, " MaxCtx = %d" % maxctx, " MaxChain = %d" % maxchain,
           " AliasOnNamedRestore = %s" % ("TRUE" if alias else "FALSE"), "VIEW view"]
    if props:
        cfg += ["INVARIANT PivotLemma", "INVARIANT Invertible", "PROPERTY NamedImmutable", "PROPERTY StackOrder",
                "PROPERTY NamedRestoreExact", "PROPERTY CtxRestores"]
    return root, "\n".join(cfg) + "\n"


class P(flow.Plan):
    pid = "C13"
    clauses = ["C13_Reverse", "C13_Stack", "C13_Named", "C13_Delete", "C13_Ctx", "C13_Keep", "C13_Pivot", "C13_Matrix", "C13_Angle", "C13_Scale"]
    trace_module = "TransformTrace"
    assumptions = ["probe points (4 affinely independent + 1) determine the affine map observed through apply_transform()",
                   "float runs compare restored states exactly (deep copies give identical floats) and inverses / pivots to 3e-4",
                   "exact runs use the integer sub-group: quarter turns, integer scales and translations, axis-aligned mirrors"]

    def model_runs(self, tier):
        piv = [(0, 0, 0), (1, 2, 0)]
        runs = []
        root, cfg = model(GENS_SMALL, piv, ["A"], 1, 1, 2, False)
        runs.append(("repaired", "MCTransform", cfg, root, []))
        root, cfg = model(GENS_SMALL, piv, ["A", "B"], 2, 1, 2, True)
        runs.append(("alias-F9", "MCTransform", cfg, root, ["NamedImmutable"]))
        if tier == "thorough":
            root, cfg = model(GENS_SMALL[:4], piv, ["A", "B"], 1, 1, 2, False)
            runs.append(("repaired-2names", "MCTransform", cfg, root, []))
            root, cfg = model(GENS_SMALL, piv, ["A"], 2, 1, 2, False)
            runs.append(("repaired-stack2", "MCTransform", cfg, root, []))
        return runs

    def behaviours(self, tier, sd):
        root, cfg = model(GENS_BIG, [(0, 0, 0), (1, 2, 0), (1, 0, 0), (-2, 1, 3)], ["A", "B", "C"], 3, 3, 6, False, props=False)
        nb = 300 if tier == "thorough" else 60
        r, files = tlc.simulate("MCTransform", cfg, num=nb, depth=30, seed=sd % (2 ** 31), root_text=root)
        # second family: few generators, so that save / restore / context-manager interplay dominates the walk
        # (a state copy that shares objects with the stack only shows when the body restores and then transforms)
        root2, cfg2 = model(GENS_SMALL[:2], [(0, 0, 0), (1, 2, 0)], ["A"], 3, 2, 8, False, props=False)
        r2, files2 = tlc.simulate("MCTransform", cfg2, num=4 * nb, depth=18, seed=(sd + 1) % (2 ** 31), root_text=root2, tag="sim2")
        files = files + files2
        traces, inputs, drift = [], [], []
        for f in files:
            states = tlaval.parse_behaviour_file(f)
            descs = [xform_rec.desc_from_last(st["last"]) for _, st in states[1:]]
            s = xform_rec.XSession(exact=True)
            for (_, st), d in zip(states[1:], descs):
                ev = s.apply(d)
                if ev["out"] != st["last"]["out"]:
                    drift.append({"call": d, "model": st["last"]["out"], "code": ev["out"]})
            s.close()
            traces.append(s.trace({"driver": "tlc-behaviour"}))
            inputs.append({"exact": True, "descs": descs})
        return traces, inputs, {"drift_count": len(drift), "drift_notes": drift[:5]}

    def executions(self, tier, sd):
        n = 600 if tier == "thorough" else 120
        traces, inputs = [], []
        for i in range(n):
            rng = random.Random(sd * 7919 + i)
            exact = i % 2 == 0
            descs = xform_rec.random_descs(rng, rng.randint(10, 30), exact)
            if i % 6 == 1:          # one rotation by an arbitrary angle, read off directly (added after seed C04d)
                descs = xform_rec.rotation_descs(rng) + descs
            if i % 6 == 3:          # one scaling by given (also volume-preserving) factors, read off directly (after seed C04h)
                descs = xform_rec.scale_descs(rng) + descs
            traces.append(xform_rec.run_descs(descs, exact, {"driver": "random", "seed": sd * 7919 + i}))
            inputs.append({"exact": exact, "descs": descs})
        return traces, inputs

    def replay(self, payload):
        inp = payload["input"]
        return [xform_rec.run_descs(inp["descs"], inp["exact"], {"driver": "replay"})], [inp]

    def controls(self, base):
        descs = [{"call": "translate", "v": [1.0, 0.0, 0.0]}, {"call": "save"}, {"call": "save_named", "name": "A"},
                 {"call": "set_pivot", "P": [1.0, 2.0, 0.0]}, {"call": "rotate", "angle": 90.0, "axis": "z"},
                 {"call": "ctx_enter"}, {"call": "scale", "v": [2.0]}, {"call": "ctx_exit"},
                 {"call": "restore_named", "name": "A"}, {"call": "translate", "v": [0.0, 3.0, 0.0]},
                 {"call": "restore_named", "name": "A"}, {"call": "restore"}, {"call": "delete", "name": "A"}]
        b = xform_rec.run_descs(descs, True, {"driver": "control-base"})

        def mut(clause, step, fn):
            t = copy.deepcopy(b)
            fn(t["ev"][step - 1])
            t["meta"]["control"] = {"clause": clause, "step": step}
            return t

        def shift_q(e, by=10000):
            for p in e["probes"]:
                p["q"][0] += by

        b2 = xform_rec.run_descs([{"call": "translate", "v": [1.5, -2.0, 0.25]}, {"call": "scale", "v": [2.0, 1.0, 0.5]},
                                  {"call": "rotate", "angle": 30.0, "axis": "z"}], False, {"driver": "control-base"})
        b3 = xform_rec.run_descs([{"call": "set_pivot", "P": [1.0, 2.0, 0.0]}, {"call": "rotate", "angle": 30.0, "axis": "z"}], False,
                                 {"driver": "control-base"})

        def mut_of(base, clause, step, fn):
            t = copy.deepcopy(base)
            fn(t["ev"][step - 1])
            t["meta"]["control"] = {"clause": clause, "step": step}
            return t
        more = [mut_of(b2, "C13_Scale", 2, lambda e: e["a"]["sv4"].__setitem__(0, e["a"]["sv4"][0] + 100)),      # "asked for 2.01"
                mut_of(b3, "C13_Angle", 2, lambda e: e["a"].__setitem__("ang5", e["a"]["ang5"] + 1000))]        # "asked for 30.6 degrees"
        return more + [
            mut("C13_Reverse", 5, lambda e: e["probes"][1]["r"].__setitem__(1, e["probes"][1]["r"][1] + 50)),
            mut("C13_Stack", 12, shift_q),
            mut("C13_Named", 11, shift_q),          # the aliasing defect F9 looks exactly like this
            mut("C13_Delete", 13, lambda e: e.__setitem__("out", "KeyError")),
            mut("C13_Ctx", 8, shift_q),
            mut("C13_Keep", 2, shift_q),
            mut("C13_Pivot", 5, lambda e: e["pv"]["y"].__setitem__(0, e["pv"]["y"][0] + 500)),
            mut("C13_Matrix", 5, lambda e: (e["probes"][1]["q"].__setitem__(0, e["probes"][1]["q"][0] + 1))),
        ]


def run(pid, tier, replay=None):
    return flow.run(P(), tier, replay)
