"""C14 -- every writer receives every line, once, in order, byte for byte."""
import copy
import random

from . import flow, tlaval, tlc, writers_rec


def model(kinds, maxlines, props=True, skips=False):
    kind = " @@ ".join('(%d :> "%s")' % (i + 1, k) for i, k in enumerate(kinds))
    root = tlc.wrapper("MCWriters", "WritersImpl", {"cKind": kind})
    cfg = ["SPECIFICATION Spec", "CONSTANTS", " W = {%s}" % ", ".join(str(i + 1) for i in range(len(kinds))),
           " KindOf <- cKind", " MaxLines = %d" % maxlines, " TeardownSkipsUserFiles = %s" % ("TRUE" if skips else "FALSE"), "VIEW view"]
    if props:
        cfg += ["INVARIANT NoDuplicates", "INVARIANT Delivery", "INVARIANT OnceInOrder", "PROPERTY Flushed", "PROPERTY TornDown"]
    return root, "\n".join(cfg) + "\n"


class P(flow.Plan):
    pid = "C14"
    clauses = ["C14_Delivery", "C14_Others", "C14_Flush", "C14_Teardown", "C14_Registry"]
    trace_module = "WritersTrace"
    assumptions = ["file content is what a second handle reads back (durable bytes)",
                   "expected bytes of a statement are computed from the driver's own text: rstrip + configured line ending, UTF-8",
                   "a path writer used again after teardown starts a new session (ReopenTruncates, named in WritersImpl)"]
    KINDS = ["path", "binary", "text", "custom", "path"]

    def model_runs(self, tier):
        if tier == "thorough":
            root, cfg = model(["path", "binary", "path", "ufile"], 3)
        else:
            root, cfg = model(["path", "binary", "ufile"], 3)
        # the code before fix F23 (teardown left a user-opened file's buffer alone) must be told apart by the model
        root2, cfg2 = model(["path", "ufile"], 3, skips=True)
        return [("writers", "MCWriters", cfg, root, []), ("writers-F23", "MCWriters", cfg2, root2, ["Flushed"])]

    def behaviours(self, tier, sd):
        kinds = ["path", "text", "ufile_t", "path"]
        root, cfg = model(["ufile" if k.startswith("ufile") else k for k in kinds], 8, props=False)
        nb = 300 if tier == "thorough" else 60
        r, files = tlc.simulate("MCWriters", cfg, num=nb, depth=25, seed=sd % (2 ** 31), root_text=root)
        traces, inputs = [], []
        for f in files:
            states = tlaval.parse_behaviour_file(f)
            descs = []
            for k, (_, st) in enumerate(states[1:]):
                a = st["last"]
                d = {"act": a["act"], "w": a["w"]}
                if a["act"] == "write":
                    d["text"] = writers_rec.TEXTS[k % len(writers_rec.TEXTS)]
                descs.append(d)
            traces.append(writers_rec.run_descs(descs, kinds, "\n", {"driver": "tlc-behaviour"}))
            inputs.append({"kinds": kinds, "eol": "\n", "descs": descs})
        return traces, inputs, {}

    def executions(self, tier, sd):
        n = 500 if tier == "thorough" else 100
        traces, inputs = [], []
        for i in range(n):
            rng = random.Random(sd * 65537 + i)
            rng2 = random.Random(sd * 8191 + i)                   # a stream of its own: the scenarios of earlier runs stay as they were
            kinds = [rng.choice(["path", "binary", "text", "custom", "ufile_b", "ufile_t", "console_b", "console_t", "console_e"])
                     for _ in range(rng.randint(2, 5))]
            if i % 4 == 1:
                kinds[rng.randrange(len(kinds))] = "log"          # at most one: every LogWriter shares the module logger
            eol = rng.choice(["\n", "\r\n", "\r\n", "\r"])
            raw = rng.random() < 0.5
            descs = []
            for _ in range(rng.randint(8, 30)):
                x = rng.random()
                if x < 0.25:
                    descs.append({"act": "add", "w": rng.randint(1, len(kinds))})
                elif x < 0.33:
                    descs.append({"act": "remove", "w": rng.randint(1, len(kinds))})
                elif x < 0.8:
                    t = rng.choice(writers_rec.TEXTS)
                    if rng.random() < 0.2:
                        t = "G1 X%d ; %s" % (rng.randint(0, 99), "".join(chr(rng.choice([233, 241, 8364, 20013, 65])) for _ in range(rng.randint(1, 6))))
                    if rng2.random() < 0.05:
                        # a name obtained from the OS (os.fsdecode) with a lone surrogate: no UTF-8 form (added after seed C14k)
                        t = rng2.choice(["G1 X1 ; caf\udce9.svg", "\ud800", "file \udcff\udcfe M30"])
                    descs.append({"act": "write", "text": t, "comment": rng.random() < 0.2})
                elif x < 0.92:
                    descs.append({"act": "flush"})
                else:
                    descs.append({"act": "teardown", "nowait": rng.random() < 0.4})
            if rng.random() < 0.5:
                descs.append({"act": rng.choice(["flush", "teardown"]), "nowait": rng.random() < 0.4})
            streams = [k + 1 for k, kind in enumerate(kinds) if kind in ("binary", "text")]
            if streams and rng.random() < 0.3:
                # the user closes a stream of their own, then tears the builder down (added after seed C14f: teardown flushed
                # user streams and stopped half-way on the closed one); nothing is written in between
                descs += [{"act": "add", "w": rng.randint(1, len(kinds))}, {"act": "close_stream", "w": rng.choice(streams)}, {"act": "teardown"}]
            traces.append(writers_rec.run_descs(descs, kinds, eol, {"driver": "random", "seed": sd * 65537 + i}, raw=raw))
            inputs.append({"kinds": kinds, "eol": eol, "raw_eol": raw, "descs": descs})
        return traces, inputs

    def replay(self, payload):
        inp = payload["input"]
        return [writers_rec.run_descs(inp["descs"], inp["kinds"], inp["eol"], {"driver": "replay"}, raw=inp.get("raw_eol", False))], [inp]

    def sample(self, t):
        return {"meta": t["meta"], "ev": [{k: (v if k != "obs" else [len(x) for x in v]) for k, v in e.items()} for e in t["ev"][:8]]}

    def brief(self, trace, step):
        e = trace["ev"][step - 1]
        return {"act": e["act"], "w": e["w"], "out": e["out"], "data": bytes(e["data"]).decode("utf-8", "replace"),
                "obs_len": [len(x) for x in e["obs"]], "nreg": e["nreg"], "kinds": trace["meta"]["kinds"]}

    def post(self, traces, inputs):
        """Beyond C14: which writers and which formatter a configuration turns into (ConfigWiring.tla, every configuration)."""
        from . import check_config
        cw = check_config.run()
        if cw["mismatches"]:
            flow.say("NOTE configuration wiring (beyond the listed properties): %d of %d constructions differ from ConfigWiring (first: %s)"
                     % (cw["mismatches"], cw["constructions"], str(cw["first_mismatches"][0])[:300]))
        return {"config_wiring": cw}

    def controls(self, base):
        kinds = ["path", "binary", "custom"]
        descs = [{"act": "add", "w": 1}, {"act": "add", "w": 2}, {"act": "add", "w": 3},
                 {"act": "write", "text": "G1 X1"}, {"act": "write", "text": "G1 X2 ; é"},
                 {"act": "remove", "w": 2}, {"act": "write", "text": "G1 X3"},
                 {"act": "flush"}, {"act": "write", "text": "G1 X4"}, {"act": "teardown"}]
        b = writers_rec.run_descs(descs, kinds, "\n", {"driver": "control-base"})

        def mut(clause, step, fn):
            t = copy.deepcopy(b)
            fn(t["ev"][step - 1], t)
            t["meta"]["control"] = {"clause": clause, "step": step}
            return t
        # the bundled console / log writers and a file the user opened: a record whose text kept its trailing blank, a console
        # that lags, a user file short after teardown
        b2 = writers_rec.run_descs([{"act": "add", "w": 1}, {"act": "add", "w": 2}, {"act": "add", "w": 3},
                                    {"act": "write", "text": "G0 Z5 "}, {"act": "write", "text": "  "}, {"act": "teardown"}],
                                   ["log", "console_b", "ufile_b"], "\n", {"driver": "control-base"})

        def mut2(clause, step, fn):
            t = copy.deepcopy(b2)
            fn(t["ev"][step - 1], t)
            t["meta"]["control"] = {"clause": clause, "step": step}
            return t
        extra = [
            mut2("C14_Delivery", 4, lambda e, t: e["obs"].__setitem__(0, e["obs"][0][:-1] + [32, 10])),
            mut2("C14_Delivery", 5, lambda e, t: e["obs"].__setitem__(1, e["obs"][1][:-1])),
            mut2("C14_Flush", 6, lambda e, t: e["obs"].__setitem__(2, e["obs"][2][:-1])),
        ]
        return extra + [
            mut("C14_Delivery", 5, lambda e, t: e["obs"][2].pop()),                       # custom writer misses a byte
            mut("C14_Delivery", 5, lambda e, t: e["obs"].__setitem__(1, e["obs"][1] + e["obs"][1][-6:])),  # delivered twice
            mut("C14_Others", 7, lambda e, t: e["obs"].__setitem__(1, e["obs"][1] + [71, 10])),   # removed writer still written
            mut("C14_Flush", 8, lambda e, t: e["obs"].__setitem__(0, e["obs"][0][:-3])),          # file short after flush
            mut("C14_Flush", 10, lambda e, t: e["obs"].__setitem__(0, e["obs"][0][:-6])),         # file short after teardown
            mut("C14_Teardown", 10, lambda e, t: e.__setitem__("nreg", 1)),
            mut("C14_Teardown", 10, lambda e, t: e["disc"].__setitem__(2, 0)),
            mut("C14_Registry", 2, lambda e, t: e.__setitem__("nreg", 1)),
        ]


def run(pid, tier, replay=None):
    return flow.run(P(), tier, replay)
