"""C15 -- streamed print jobs arrive complete, in order and checksummed."""
import copy
import logging
import json
import random
from concurrent.futures import ProcessPoolExecutor

from . import flow, serial_rec, tlaval, tlc


def cfg(nlines, ncorr, inv, live=True, old_resend=False):
    c = ["SPECIFICATION Spec", "CONSTANTS", " NLines = %d" % nlines, " MaxCorrupt = %d" % ncorr,
         " AdvanceAfterSend = %s" % ("TRUE" if old_resend else "FALSE")]
    for i in inv:
        c.append("INVARIANT " + i)
    if live:
        c.append("PROPERTY Terminates")
    return "\n".join(c) + "\n"


def _job(args):
    from . import serial_rec
    from .common import set_logging
    set_logging(len(args) > 7 and bool(args[7]))
    lines, corrupt, holds = args[:3]
    pauses = args[3] if len(args) > 3 else ()
    instant = bool(args[4]) if len(args) > 4 else False
    nxt = args[5] if len(args) > 5 and args[5] else []
    copen = args[6] if len(args) > 6 and args[6] else []
    return serial_rec.run_job(lines, corrupt=corrupt, holds={int(k): v for k, v in holds.items()}, pauses=pauses, instant=instant,
                              next_jobs=nxt, corrupt_open=copen)


def _tcp_job(args):
    from . import serial_rec
    from .common import set_logging
    set_logging(False)
    lines, holds, pauses, nxt = args[:4]
    kind = args[4] if len(args) > 4 else "socket"
    if kind == "grbl":
        # a serial link to a controller that greets with a Grbl banner: printcore switches line numbers off, the wire looks
        # like the TCP one (no numbering, no checksums, no resets), paced by the acknowledgements
        return serial_rec.run_job(lines, corrupt=(), holds={int(k): v for k, v in holds.items()}, pauses=pauses, next_jobs=nxt,
                                  mode="serial", greeting=b"Grbl 1.1h ['$' for help]\n")
    return serial_rec.run_job(lines, corrupt=(), holds={int(k): v for k, v in holds.items()}, pauses=pauses, next_jobs=nxt, mode="socket",
                              streaming=(kind == "stream"))


def run_jobs(specs, par=12):
    return flow.pool_map(_job, specs, par, per_task=40)


def schedule_from_behaviour(states):
    corrupt, holds = [], {}
    ntx, nrep = 0, 0
    prev = states[0][1]
    for hdr, st in states[1:]:
        if st["ntx"] > prev["ntx"]:
            if st["wire"] and st["wire"][-1]["bad"]:
                corrupt.append(st["ntx"] - 1)
        if hdr and hdr.startswith("<Reader"):
            holds[nrep] = st["ntx"]
            nrep += 1
        prev = st
    return corrupt, holds


def job_lines(rng, n):
    out = []
    for i in range(n):
        if rng.random() < 0.25:
            out.append("; comment before %d" % i)
        tail = " ; note %d" % i if rng.random() < 0.3 else ""
        if rng.random() < 0.15:
            # commands whose argument is free text or a path (added after seed C15h: a line cut at its first '/' or '*')
            out.append(rng.choice(["M117 Layer %d/%d", "M23 /models/part%d_%d.gco", "M117 %d*%d grid done", "M118 E1 step %d / %d"])
                       % (i + 1, rng.randint(2, 9)) + tail)
            continue
        if rng.random() < 0.12:
            # runs of blanks and tabs inside a command (added after seed C15i: the text was normalised on the wire after its
            # checksum had been computed): the firmware is to receive the bytes the checksum was computed over
            out.append(rng.choice(["G1  X%d   Y%d", "G1\tX%d\tY%d", "G1 X%d  Y%d F300"]) % (i + 1, rng.randint(0, 9)) + tail)
            continue
        out.append(rng.choice(["G1 X%d Y%d", "G0 Z%d.%d", "M104 S%d%d"]) % (i + 1, rng.randint(0, 9)) + tail)
    if rng.random() < 0.3:
        out.append(";end")
    return out


def layered_job(rng, n):
    """A job shaped like a sliced print (added after seed C15d: the queue index -> (layer, line) table of gcoder): layers at
    increasing heights with extruding moves, Z-hops that come back to the same height and extrude again, travel moves, and
    non-extruding lines after the last lift."""
    out, z, e, i = [], 0.0, 0.0, 0
    while len(out) < n:
        kind = rng.choice(["layer", "extrude", "extrude", "hop", "travel", "misc"])
        i += 1
        if kind == "layer":
            z = round(z + rng.choice([0.2, 0.3]), 2)
            out.append("G1 Z%.2f F600" % z)
        elif kind == "extrude":
            e = round(e + rng.uniform(0.1, 2.0), 3)
            out.append("G1 X%d Y%d E%.3f" % (i, rng.randint(0, 50), e))
        elif kind == "hop":
            out += ["G1 Z%.2f" % (z + 0.4), "G0 X%d Y%d" % (i, rng.randint(51, 99)), "G1 Z%.2f" % z]
        elif kind == "travel":
            out.append("G0 X%d Y%d" % (i, rng.randint(100, 150)))
        else:
            out.append(rng.choice(["M106 S%d", "M104 S%d", "; layer note %d"]) % (100 + i))
    out = out[:n]
    if rng.random() < 0.6:
        out += ["G1 Z%.2f" % (z + 5.0), "M84", "M107"][:rng.randint(1, 3)]
    return out


def project(trace):
    """A recorded execution in SenderImpl's vocabulary: line numbers, command indices, reply kinds."""
    job = [bytes(x).decode() for x in trace["job"]]
    ev = []
    for e in trace["ev"]:
        t = bytes(e["text"]).decode("ascii", "replace").strip()
        if e["k"] == "tx":
            try:
                body = t.rsplit("*", 1)[0]
                head, cmd = body.split(" ", 1)
                n = int(head[1:])
                c = 0 if cmd.startswith("M110") else job.index(cmd) + 1
            except (ValueError, IndexError):
                return None
            ev.append({"k": "tx", "n": n, "cmd": c, "bad": bool(e["bad"]), "kind": ""})
        elif e["k"] == "rel":
            if t == "ok":
                ev.append({"k": "rel", "n": 0, "cmd": 0, "bad": False, "kind": "ok"})
            elif t.startswith("Resend:"):
                ev.append({"k": "rel", "n": int(t.split(":")[1]), "cmd": 0, "bad": False, "kind": "resend"})
            else:
                return None
        elif e["k"] == "end":
            ev.append({"k": "end", "n": 0, "cmd": 0, "bad": False, "kind": ""})
    if len(set(job)) != len(job):
        return None
    return {"nlines": len(job), "ev": ev}


def impl_conformance(traces):
    """How many recorded executions are behaviours of SenderImpl (firmware steps inferred by TLC)?"""
    import os
    from .common import workdir, write_json
    groups = {}
    for i, t in enumerate(traces):
        if t["meta"].get("pauses") or t["meta"].get("jobs", 1) > 1:
            continue                      # SenderImpl has no pause() and one job; those executions belong to SenderPauseImpl / SenderJobsImpl
        p = project(t)
        if p is not None and p["nlines"] >= 1:
            groups.setdefault(p["nlines"], []).append((i, p))
    accepted, total, rejected = 0, 0, []
    for n, items in sorted(groups.items()):
        path = os.path.join(workdir(), "implconf_%d.json" % n)
        write_json(path, [p for _, p in items])
        cfg = "SPECIFICATION TSpec\nCONSTANTS\n NLines = %d\n MaxCorrupt = 99\n AdvanceAfterSend = FALSE\n" % n
        r = tlc.validate("SenderImplTrace", cfg, path, tag="implconf")
        if r.errors:
            raise flow.MachineryError("SenderImplTrace failed: %s\n%s" % (r.errors[:2], r.stdout[-1500:]))
        ok = {t[1] for t in r.tuples if t and t[0] == "A"}
        total += len(items)
        accepted += len(ok)
        rejected += [items[k - 1][0] for k in range(1, len(items) + 1) if k not in ok]
    return accepted, total, rejected


class P(flow.Plan):
    pid = "C15"
    clauses = ["C15_Frame", "C15_Text", "C15_First", "C15_Resend", "C15_Complete", "C15_NoDup", "H_Replies"]
    trace_module = "SenderTrace"
    shards = 8
    assumptions = ["the firmware is the Marlin-style model written in SenderTrace.tla / SenderImpl.tla",
                   "the link corrupts whole transmissions (chosen by index), it does not reorder or duplicate them",
                   "latency is realised by holding a reply line until the host has made a given number of transmissions (fallback 80 ms)"]

    def model_runs(self, tier):
        runs = [("sender-3x2", "SenderImpl", cfg(3, 2, ["CompleteModuloFindings", "InOrder"]), None, []),
                ("sender-3x2-strict", "SenderImpl", cfg(3, 2, ["CompleteStrict"], live=False), None, ["CompleteStrict"]),
                # the code before fix F21: a reply handled between the retransmission and `resendfrom += 1` is overwritten
                ("sender-2x2-F21", "SenderImpl", cfg(2, 2, ["CompleteModuloFindings"], live=False, old_resend=True), None,
                 ["CompleteModuloFindings"])]
        pc = ("SPECIFICATION Spec\nCONSTANTS\n NLines = 3\n MaxCorrupt = %d\n MaxPauses = %d\n NRestore = 2\n PauseClearsSentlines = %s\n"
              "INVARIANT CompleteModuloFindings\nINVARIANT InOrder\nINVARIANT RestoreDelivered\nINVARIANT NeverDies\n%s")
        big = tier == "thorough"
        runs.append(("sender-pause-resume", "SenderPauseImpl", pc % (2 if big else 1, 2 if big else 1, "FALSE", "PROPERTY Terminates\n"), None, []))
        runs.append(("sender-pause-F18", "SenderPauseImpl", pc % (1, 1, "TRUE", ""), None, ["NeverDies"]))
        # beyond the listed properties: the whole job life cycle (startprint / pause / resume / cancelprint / ";@pause" / restart)
        jc = ("SPECIFICATION Spec\nCONSTANTS\n NLines = 3\n NJobs = 2\n MaxCorrupt = %d\n MaxPauses = %d\n MaxCancels = 1\n NRestore = %d\n"
              " HostPauseAt = {%s}\n PauseClearsSentlines = %s\n ResendAnalysed = TRUE\n QuietPause = FALSE\nCHECK_DEADLOCK FALSE\n"
              "INVARIANT CompleteModuloFindings\nINVARIANT InOrder\nINVARIANT JobsInOrder\nINVARIANT RestoreDelivered\nINVARIANT NeverDies\n%s")
        live = "PROPERTY CancelStops\nPROPERTY Terminates\n"
        runs.append(("jobs-lifecycle", "SenderJobsImpl", jc % (1, 1, 2, "2", "FALSE", live), None, []))
        runs.append(("jobs-lifecycle-F18", "SenderJobsImpl", jc % (1, 1, 1, "2", "TRUE", ""), None, ["NeverDies"]))
        # finding F19 (beyond the listed properties): the position saved by pause() counts transmitted, not accepted lines
        rc = ("SPECIFICATION Spec\nCONSTANTS\n NLines = 3\n NJobs = 1\n MaxCorrupt = %d\n MaxPauses = %d\n MaxCancels = 0\n NRestore = 2\n"
              " HostPauseAt = {}\n PauseClearsSentlines = FALSE\n ResendAnalysed = %s\n QuietPause = %s\nCHECK_DEADLOCK FALSE\n"
              "INVARIANT ResumeReturns\nINVARIANT InOrder\n")
        runs.append(("jobs-resume-no-corruption", "SenderJobsImpl", rc % (0, 2, "TRUE", "FALSE"), None, []))
        runs.append(("jobs-resume-F19", "SenderJobsImpl", rc % (1, 1, "TRUE", "FALSE"), None, ["ResumeReturns"]))
        runs.append(("jobs-resume-F19-quiet-noreanalysis", "SenderJobsImpl", rc % (1, 1, "FALSE", "TRUE"), None, ["ResumeReturns"]))
        # beyond the listed properties: the analyser's layer table is the inverse of its cut into layers, for every program
        lc = "SPECIFICATION Spec\nCONSTANTS\n MaxLines = %d\n Zs = {0, 1}\nCHECK_DEADLOCK FALSE\nINVARIANT Inv_Table\nINVARIANT Inv_Monotone\nINVARIANT Inv_Batch\n"
        runs.append(("gcoder-layers", "GcoderLayers", lc % (5 if tier == "thorough" else 4), None, []))
        runs.append(("gcoder-layers-empty-first-layer", "GcoderLayers", lc % 2 + "INVARIANT Inv_NoEmptyLayer\n", None, ["Inv_NoEmptyLayer"]))
        if tier == "thorough":
            runs.append(("jobs-lifecycle-2x2", "SenderJobsImpl", jc % (2, 2, 1, "1, 3", "FALSE", live), None, []))
            runs.append(("sender-4x3", "SenderImpl", cfg(4, 3, ["CompleteModuloFindings", "InOrder"]), None, []))
        return runs

    def behaviours(self, tier, sd):
        nb = 240 if tier == "thorough" else 48
        r, files = tlc.simulate("SenderImpl", cfg(4, 3, [], live=False), num=nb, depth=70, seed=sd % (2 ** 31))
        specs, inputs = [], []
        rng = random.Random(sd)
        for f in files:
            states = tlaval.parse_behaviour_file(f)
            corrupt, holds = schedule_from_behaviour(states)
            if 0 in corrupt and rng.random() < 0.75:
                corrupt.remove(0)          # keep most schedules outside finding F13
            lines = ["G1 X%d" % (i + 1) for i in range(4)]
            if rng.random() < 0.5:
                lines.insert(rng.randint(0, 4), "; a comment line")
                lines[-1] += " ; tail"
            specs.append((lines, corrupt, holds))
            inputs.append({"lines": lines, "corrupt": corrupt, "holds": holds})
        traces = run_jobs(specs)
        for t in traces:
            t["meta"]["driver"] = "tlc-behaviour"
        return traces, inputs, {}

    def post(self, traces, inputs):
        acc, tot, rej = impl_conformance(traces)
        # the binding is live: one corrupted field must make TLC reject the trace
        import copy as _c
        bad = _c.deepcopy(traces[0])
        k = [i for i, e in enumerate(bad["ev"]) if e["k"] == "tx"][1]
        t = bytes(bad["ev"][k]["text"]).decode()
        bad["ev"][k]["text"] = list(t.replace("N0 ", "N7 ", 1).encode())
        a2, t2, _ = impl_conformance([bad])
        if t2 == 1 and a2 == 1:
            raise flow.MachineryError("SenderImplTrace accepted a trace with a corrupted line number")
        out = {"impl_level_traces_accepted_by_SenderImpl": acc, "impl_level_traces_checked": tot,
               "impl_level_corrupted_trace_rejected": t2 == 1 and a2 == 0,
               "drift_count": tot - acc, "drift_notes": [{"trace": i, "schedule": inputs[i]} for i in rej[:3]]}
        out.update(self.job_life_cycle())
        out.update(self.layer_table())
        out.update(self.tcp_streaming())
        return out

    def tcp_streaming(self):
        """Beyond C15 (which speaks of a serial link): the same jobs streamed over a TCP connection (SenderTcpTrace)."""
        import copy as _c
        import os
        from .common import workdir, write_json
        tier, sd = getattr(self, "_tier", "quick"), getattr(self, "_sd", 1)
        n = 80 if tier == "thorough" else 16
        specs = []
        for i in range(n):
            rng = random.Random(sd * 3331 + i)
            k = rng.randint(1, 8)
            lines = job_lines(rng, k) if i % 3 else layered_job(rng, rng.randint(4, 12))
            holds = {j: rng.randint(0, k + 3) for j in range(2 * k + 6) if rng.random() < 0.25}
            pauses = sorted(rng.sample(range(1, k + 2), 1)) if i % 4 == 0 and k >= 2 else []
            nxt = [job_lines(rng, rng.randint(1, 4))] if i % 5 == 2 and not pauses else []
            specs.append((lines, holds, pauses, nxt, "grbl" if i % 3 == 1 else ("stream" if i % 6 == 3 and not pauses else "socket")))
        trs = flow.pool_map(_tcp_job, specs, 8, per_task=40)

        def judge(ts, tag):
            path = os.path.join(workdir(), "%s.json" % tag)
            write_json(path, [{"job": t["job"], "paced": not t["meta"].get("streaming", False),
                               "ev": [{"k": e["k"], "text": e["text"], "joined": e["joined"], "job": e["job"]} for e in t["ev"]]} for t in ts])
            r = tlc.validate("SenderTcpTrace", "SPECIFICATION Spec\n", path, tag=tag)
            if r.errors or r.rc != 0:
                raise flow.MachineryError("SenderTcpTrace failed: %s\n%s" % (r.errors[:2], r.stdout[-1500:]))
            counts, fails = {}, []
            for t in r.tuples:
                if t and t[0] == "D":
                    for c, m in t[3].items():
                        counts[c] = counts.get(c, 0) + m
                elif t and t[0] == "F":
                    fails.append((t[1] - 1, t[2], t[3]))
            return counts, fails
        counts, fails = judge(trs, "tcp")
        # planted corruptions: a framed line on the wire, two job lines swapped, a line sent before the previous ok
        def job_txs(t):
            """indices of the first job's line transmissions (not the resets), up to the next job"""
            out = []
            for i, e in enumerate(t["ev"]):
                if e["k"] == "newjob":
                    break
                if e["k"] == "tx" and not bytes(e["text"]).startswith(b"M110"):
                    out.append(i)
            return out
        base = next((t for t in trs if not t["meta"]["pauses"] and not t["meta"].get("streaming") and len(job_txs(t)) >= 3
                     and t["ev"][job_txs(t)[0]]["text"] != t["ev"][job_txs(t)[1]]["text"]), None)
        ctl = 0
        if base is not None:
            c1, c2, c3 = _c.deepcopy(base), _c.deepcopy(base), _c.deepcopy(base)
            tx = [0] + job_txs(base)          # tx[1], tx[2]: the first two job lines
            c1["ev"][tx[1]]["text"] = list(b"N0 " + bytes(c1["ev"][tx[1]]["text"]).rstrip(b"\n") + b"*1\n")
            c2["ev"][tx[1]]["text"], c2["ev"][tx[2]]["text"] = c2["ev"][tx[2]]["text"], c2["ev"][tx[1]]["text"]
            rel = [i for i, e in enumerate(c3["ev"]) if e["k"] == "rel" and i > tx[1]][0]
            c3["ev"].insert(tx[1], c3["ev"].pop(tx[2]))
            _, cf = judge([c1, c2, c3], "tcpctl")
            got = {(i, c) for i, _, c in cf}
            want = {(0, "TCP_Plain"), (1, "TCP_Order"), (2, "TCP_Paced")}
            if not want <= got:
                raise flow.MachineryError("SenderTcpTrace missed planted corruptions: %s" % sorted(want - got))
            ctl = 3
        if fails:
            i, step, clause = fails[0]
            flow.say("NOTE TCP streaming (beyond the listed properties): %d clause failures, first: %s at step %d of job %s"
                     % (len(fails), clause, step, json.dumps(trs[i]["raw"])[:200]))
        return {"tcp_streaming": {"executions": len(trs), "clause_checks": counts, "failures": len(fails),
                                  "first_failures": [[i, st, c] for i, st, c in fails[:5]], "planted_corruptions_detected": ctl}}

    def layer_table(self):
        """Beyond C15: the (layer, line) table through which printcore fetches the line to send (GcoderLayers)."""
        from . import check_layers
        tier, sd = getattr(self, "_tier", "quick"), getattr(self, "_sd", 1)
        lt = check_layers.run(sd, 400 if tier == "thorough" else 60)
        if lt.get("n_contract_failures"):
            flow.say("NOTE layer table (beyond the listed properties): on %d of %d jobs the real gcoder table is not the inverse of the "
                     "cut into layers (first job: %s)" % (lt["n_contract_failures"], lt["jobs"], json.dumps(lt["first_bad_job"])[:300]))
        if lt.get("n_impl_mismatches"):
            flow.say("NOTE drift (layer table): on %d of %d jobs the real gcoder table differs from the one GcoderLayers computes "
                     "(first job: %s)" % (lt["n_impl_mismatches"], lt["jobs"], json.dumps(lt["first_bad_job"])[:300]))
        return {"gcoder_layer_table": lt}

    def job_life_cycle(self):
        """Beyond C15: executions with cancelprint / restart / ';@pause' validated against SenderJobsImpl."""
        import copy as _c
        from . import check_jobs as cj
        tier, sd = getattr(self, "_tier", "quick"), getattr(self, "_sd", 1)
        trs, lost = cj.run_scenarios(sd, 96 if tier == "thorough" else 24)
        nrandom = len(trs)
        trs += [cj._run(sc) for sc in cj.F19_WITNESSES]
        acc, tot, rej, inv = cj.validate(trs)
        f19 = sorted({i for i, name in inv if name == "ResumeReturns"})
        inv = [x for x in inv if x[1] != "ResumeReturns"]
        wit = [i for i in f19 if i >= nrandom]
        flow.say("NOTE finding F19 (beyond the listed properties; position saved by pause() counts transmitted lines): resume() displaced "
                 "the machine in %d real executions (%d of %d directed witnesses)" % (len(f19), len(wit), len(cj.F19_WITNESSES)))
        # negative controls: two job lines swapped on the wire / one reply removed from the log
        ctl = []
        for t in trs:
            c = _c.deepcopy(t)
            txs = [e for e in c["ev"] if e["k"] == "tx" and bytes(e["text"]).startswith(b"N") and b"M110" not in bytes(e["text"])]
            rel = [k for k, e in enumerate(c["ev"]) if e["k"] == "rel"]
            other = [e for e in txs[1:] if e["text"] != txs[0]["text"]] if txs else []
            if other and rel and len(ctl) < 4:
                if len(ctl) % 2 == 0:
                    txs[0]["text"], other[0]["text"] = other[0]["text"], txs[0]["text"]
                else:
                    del c["ev"][rel[len(rel) // 2]]
                ctl.append(c)
        ca, ct, _, _ = cj.validate(ctl)
        if ct and ca:
            raise flow.MachineryError("SenderJobsImplTrace accepted %d of %d corrupted traces" % (ca, ct))
        # the callback interface (PrinterEventHandler) on the same executions, with three planted corruptions
        cb_counts, cb_fails = cj.validate_callbacks(trs)
        base = next((t for t in trs if len([e for e in t["evcb"] if e["k"] == "cb" and e["name"] == "send"]) >= 2
                     and [e for e in t["evcb"] if e["k"] == "cb" and e["name"] == "printsend"]), None)
        cb_ctl = 0
        if base is not None:
            c1, c2, c3 = _c.deepcopy(base), _c.deepcopy(base), _c.deepcopy(base)
            del c1["evcb"][[i for i, e in enumerate(c1["evcb"]) if e["k"] == "cb" and e["name"] == "printsend"][0]]
            c2["evcb"][[i for i, e in enumerate(c2["evcb"]) if e["k"] == "cb" and e["name"] == "send"][1]]["text"] = list(b"N0 G1 X99*1")
            k3 = [i for i, e in enumerate(c3["evcb"]) if e["k"] == "cb" and e["name"] == "start"][0]
            c3["evcb"][k3]["flag"] = not c3["evcb"][k3]["flag"]
            _, cf = cj.validate_callbacks([c1, c2, c3])
            got = {(i, c) for i, _, c in cf}
            want = {(0, "CB_PrintSend"), (1, "CB_Send"), (2, "CB_StartEnd")}
            if not want <= got:
                raise flow.MachineryError("CallbacksTrace missed planted corruptions: %s" % sorted(want - got))
            cb_ctl = 3
        if cb_fails:
            flow.say("NOTE callbacks (beyond the listed properties): %d clause failures of the PrinterEventHandler contract, first: trace %d step %d %s"
                     % (len(cb_fails), cb_fails[0][0], cb_fails[0][1], cb_fails[0][2]))
        kinds = {}
        for t in trs:
            for e in t["ev"]:
                kinds[e["k"]] = kinds.get(e["k"], 0) + 1
        if rej:
            flow.say("NOTE drift (job life cycle): %d of %d executions with cancel/restart are not behaviours of SenderJobsImpl (first: %s)"
                     % (len(rej), tot, json.dumps(trs[rej[0]]["meta"].get("scenario", trs[rej[0]]["meta"]))[:300]))
        if inv:
            flow.say("NOTE job life cycle: a model invariant fails on a state matched to a real execution: %s" % inv[:3])
        return {"job_life_cycle": {"executions": tot, "accepted_by_SenderJobsImpl": acc, "harness_lost": lost,
                                   "events": kinds, "corrupted_traces_rejected": "%d of %d" % (ct - ca, ct),
                                   "callbacks_contract": {"clause_checks": cb_counts, "failures": len(cb_fails), "planted_corruptions_detected": cb_ctl},
                                   "invariant_notes": [list(x) for x in inv[:5]],
                                   "F19_resume_displaces_machine": {"executions": len(f19), "directed_witnesses_reproduced": "%d of %d" % (len(wit), len(cj.F19_WITNESSES))},
                                   "rejected_scenarios": [trs[i]["meta"].get("scenario", trs[i]["meta"]) for i in rej[:3]]}}

    def executions(self, tier, sd):
        self._tier, self._sd = tier, sd
        n = 300 if tier == "thorough" else 60
        specs, inputs = [], []
        for i in range(n):
            rng = random.Random(sd * 7577 + i)
            k = rng.randint(1, 8)
            lines = job_lines(rng, k) if i % 3 else layered_job(rng, rng.randint(4, 12))
            if i % 11 == 5:
                # a long job (added after seed C15f: 'Resend: 11' read as line 1): two-digit line numbers get corrupted too
                lines = layered_job(rng, rng.randint(16, 26))
                k = len([x for x in lines if serial_rec.strip_job_line(x)])
            ntx_guess = k + 2
            corrupt = sorted(rng.sample(range(0, ntx_guess + 3), rng.choice([0, 1, 1, 2, 3])))
            if i % 11 == 5:
                corrupt = sorted(set(corrupt + [rng.randint(12, k)]))
            if rng.random() < 0.7 and 0 in corrupt:
                corrupt.remove(0)          # keep most runs outside finding F13
            holds = {}
            for j in range(3 * k + 8):
                if rng.random() < 0.25:
                    holds[j] = rng.randint(0, k + 4)
            # beyond the listed quantifier: pause() / resume() in the middle of the job (SenderPauseImpl)
            pauses = sorted(rng.sample(range(1, k + 2), rng.choice([1, 1, 2]))) if i % 4 == 0 and k >= 2 else []
            if pauses and pauses[0] >= 2 and rng.random() < 0.6:
                # added after seed C15g (pause() wiped the cache of transmitted lines): the line in flight when the user pauses
                # is the corrupted one and its 'Resend' arrives during the pause; resume() has to retransmit it
                corrupt = sorted(set(corrupt + [pauses[0] - 1]))
                holds[pauses[0] - 1] = pauses[0] + 6
            # zero latency (added after seed C15c): the reply is read and handled by the reader thread before write() returns to
            # the print thread; half of these runs corrupt the first transmission of the LAST job line (nothing follows to heal it)
            instant = i % 5 == 1
            if instant:
                holds = {}
                nexe = len([x for x in lines if serial_rec.strip_job_line(x)])
                if rng.random() < 0.5:
                    corrupt = sorted(set([c for c in corrupt if c < nexe and c != 0] + [nexe]))
            # "for all jobs": a second (third) job streamed on the same connection once the first is over; every other such run
            # has the link corrupt the OPENING M110 of a later job -- harmless as long as the closing M110 of the job before
            # got through (added after seed C15e, which dropped that closing reset)
            nxt, copen = [], []
            if i % 7 == 3 and not pauses:
                nxt = [job_lines(rng, rng.randint(1, 5)) for _ in range(rng.choice([1, 1, 2]))]
                if (i // 7) % 2 == 0:
                    copen = [2]
            verbose = i % 6 == 2            # DEBUG logging enabled process-wide (added after seed C18g)
            specs.append((lines, corrupt, holds, pauses, instant, nxt, copen, verbose))
            inputs.append({"lines": lines, "corrupt": corrupt, "holds": holds, "pauses": pauses, "instant": instant,
                           "next_jobs": nxt, "corrupt_open": copen, "verbose": verbose})
        traces = run_jobs(specs)
        for t in traces:
            t["meta"]["driver"] = "random"
        return traces, inputs

    def replay(self, payload):
        inp = payload["input"]
        return run_jobs([(inp["lines"], inp["corrupt"], inp["holds"], inp.get("pauses", []), inp.get("instant", False),
                          inp.get("next_jobs", []), inp.get("corrupt_open", []), inp.get("verbose", False))], par=1), [inp]

    def sample(self, t):
        return {"meta": t["meta"], "raw_job": t["raw"], "ev": [{"k": e["k"], "text": bytes(e["text"]).decode("ascii", "replace"), "bad": e["bad"]} for e in t["ev"][:14]]}

    def brief(self, trace, step):
        e = trace["ev"][step - 1]
        return {"k": e["k"], "text": bytes(e["text"]).decode("ascii", "replace"), "bad": e["bad"], "joined": e["joined"],
                "wire": [bytes(x["text"]).decode("ascii", "replace").strip() + ("!" if x["bad"] else "") for x in trace["ev"] if x["k"] == "tx"]}

    def controls(self, base):
        b = run_jobs([(["G1 X1", "G1 X2 ; c", "G1 X3"], [2], {})], par=1)[0]

        def mut(clause, step, fn):
            t = copy.deepcopy(b)
            fn(t)
            t["meta"]["control"] = {"clause": clause, "step": step}
            return t
        txs = [i for i, e in enumerate(b["ev"]) if e["k"] == "tx"]
        end = len(b["ev"])

        def flip_cs(t):
            e = t["ev"][txs[1]]
            e["text"][-2] = 48 + ((e["text"][-2] - 48 + 1) % 10)

        def wrong_text(t):
            e = t["ev"][txs[1]]
            s = bytes(e["text"]).decode().replace("G1 X1", "G1 X9")
            body = s.rsplit("*", 1)[0]
            x = 0
            for ch in body:
                x ^= ord(ch)
            e["text"] = list(("%s*%d\n" % (body, x)).encode())

        def drop_last_line(t):
            # the host "forgot" the last job line: remove its transmission and the ok that answered it
            k = [i for i, e in enumerate(t["ev"]) if e["k"] == "tx" and b"N2 " in bytes(e["text"])][0]
            del t["ev"][k:k + 2]

        def no_resend(t):
            k = txs[3]                  # the retransmission of N1
            del t["ev"][k:k + 2]
        return [
            mut("C15_Frame", txs[1] + 1, flip_cs),
            mut("C15_Text", txs[1] + 1, wrong_text),
            mut("C15_First", txs[0] + 1, lambda t: t["ev"].__delitem__(slice(0, 2))),
            mut("C15_Resend", 0, no_resend),
            mut("C15_Complete", 0, drop_last_line),
            mut("H_Replies", 0, lambda t: t["ev"].__delitem__([i for i, e in enumerate(t["ev"]) if e["k"] == "rel"][1])),
        ]


def run(pid, tier, replay=None):
    return flow.run(P(), tier, replay)
