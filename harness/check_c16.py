"""C16 -- direct-write statements are delivered synchronously and errors surface."""
import copy
import logging
import random
from concurrent.futures import ProcessPoolExecutor

from . import flow, tlaval, tlc

ERRS = [b"Error: printer halted\n", b"error:9\n", b"ALARM:1\n", b"!! fatal\n", b"Error:checksum mismatch\n"]
STATUS = [b"X:1.00 Y:2.00 Z:0.00 E:0.00 Count X:80 Y:160 Z:0\n", b"T:21.5 /0.0 B:22.1 /0.0 @:0 B@:0\n",
          b"<Idle|MPos:1.000,2.000,3.000|FS:100,200>\n", b"echo:busy: processing\n", b"[PRB:1.000,2.000,-3.500:1]\n"]
NONASCII = "G1 X3 ; caf\u00e9 \u4e2d\n".encode("utf-8")
STMTS = [b"G1 X1 Y2\n", b"M114\n", b"M105\n", b"G0 Z5 ; lift\n", b"  G4 P1  \n", b"T1 M6\n", b"M3 S1000\n", b"G1 X10 F600\r\n",
         # one-character statements (Grbl's status query, feed hold, cycle start; added after seed C16i, which stopped waiting
         # for their acknowledgement): handed to write() they are statements like any other, and the device acknowledges them
         b"?\n", b"!\n", b"~\n", b"?\n"]


def cfg(n, err, status, inv, live=True, loss=False, old_wait=False):
    c = ["SPECIFICATION Spec", "CONSTANTS", " NStmt = %d" % n, " ErrAt = {%s}" % ",".join(map(str, err)),
         " StatusAt = {%s}" % ",".join(map(str, status)), " LossAllowed = %s" % ("TRUE" if loss else "FALSE"),
         " WaitWithoutListener = %s" % ("TRUE" if old_wait else "FALSE")]
    c += ["INVARIANT " + i for i in inv]
    if live:
        c.append("PROPERTY AllReturn")
    return "\n".join(c) + "\n"


def _one(args):
    from . import serial_rec
    from .common import set_logging
    set_logging(len(args) > 11 and bool(args[11]))
    stmts, acks, status, late = args[:4]
    lose = args[4] if len(args) > 4 else 0
    slow = tuple(args[5]) if len(args) > 5 and args[5] else None
    mode = args[6] if len(args) > 6 else "serial"
    lose_idle = args[7] if len(args) > 7 else 0
    instant = list(args[8]) if len(args) > 8 and args[8] else []
    idle_lines = {int(k): [bytes(x) for x in v] for k, v in (args[9] or {}).items()} if len(args) > 9 and args[9] else None
    wfail = args[10] if len(args) > 10 else 0
    recon = list(args[12]) if len(args) > 12 and args[12] else []
    boot = [bytes(x) for x in args[13]] if len(args) > 13 and args[13] else None
    return serial_rec.run_direct([bytes(s) for s in stmts], [bytes(a) for a in acks],
                                 status={int(k): [bytes(x) for x in v] for k, v in status.items()}, late_hs=late, lose_at=lose,
                                 slow=slow, mode=mode, lose_idle_after=lose_idle, instant=instant, idle_lines=idle_lines, fail_write_at=wfail,
                                 reconnect_before=recon, boot_reply=boot)


def run_all(specs, par=12):
    return flow.pool_map(_one, specs, par, per_task=40)


def enc(spec):
    stmts, acks, status, late = spec[:4]
    return {"stmts": [list(s) for s in stmts], "acks": [list(a) for a in acks],
            "status": {str(k): [list(x) for x in v] for k, v in status.items()}, "late": late,
            "lose": spec[4] if len(spec) > 4 else 0, "slow": list(spec[5]) if len(spec) > 5 and spec[5] else None,
            "mode": spec[6] if len(spec) > 6 else "serial", "lose_idle": spec[7] if len(spec) > 7 else 0,
            "instant": list(spec[8]) if len(spec) > 8 and spec[8] else [],
            "idle_lines": {str(k): [list(x) for x in v] for k, v in spec[9].items()} if len(spec) > 9 and spec[9] else {},
            "wfail": spec[10] if len(spec) > 10 else 0, "verbose": bool(spec[11]) if len(spec) > 11 else False, "reconnect": list(spec[12]) if len(spec) > 12 and spec[12] else [],
            "boot": [list(x) for x in spec[13]] if len(spec) > 13 and spec[13] else []}


def dec(d):
    return ([bytes(s) for s in d["stmts"]], [bytes(a) for a in d["acks"]],
            {int(k): [bytes(x) for x in v] for k, v in d["status"].items()}, d["late"], d.get("lose", 0), d.get("slow"), d.get("mode", "serial"), d.get("lose_idle", 0), d.get("instant", []),
            {int(k): [bytes(x) for x in v] for k, v in d.get("idle_lines", {}).items()}, d.get("wfail", 0), d.get("verbose", False), d.get("reconnect", []), [bytes(x) for x in d.get("boot", [])])


def project(trace, spec):
    """A recorded execution in DirectWriteImpl's vocabulary (None if it is outside the model: loss, slow, stuck, ...)."""
    stmts, acks, status, late = spec[:4]
    if (len(spec) > 4 and spec[4]) or (len(spec) > 5 and spec[5]) or (len(spec) > 7 and spec[7]) or (len(spec) > 9 and spec[9]) or (len(spec) > 10 and spec[10]):
        return None
    if any(len(v) != 1 for v in status.values()):
        return None
    ev, nm110, s_tx = [], 0, 0
    for e in trace["ev"]:
        t = bytes(e["text"])
        if e["k"] == "tx":
            if t.startswith(b"G4 P0") and s_tx == 0 and nm110 == 0:
                continue
            if b"M110" in t:
                nm110 += 1
                if nm110 == 2:
                    ev.append({"k": "tx_hs2", "s": 0, "t": "", "hs": True, "res": ""})
                continue
            s_tx += 1
            ev.append({"k": "tx", "s": s_tx, "t": "", "hs": False, "res": ""})
        elif e["k"] == "rel":
            low = t.lower()
            if e["hs"] and nm110 == 0:
                continue                      # the answer to the connection probe
            kind = "ok" if low.startswith(b"ok") else "error" if low.startswith((b"error", b"alarm", b"!!")) else "status"
            ev.append({"k": "rel", "s": 0, "t": kind, "hs": bool(e["hs"]), "res": ""})
        elif e["k"] == "call":
            ev.append({"k": "call", "s": e["s"], "t": "", "hs": False, "res": ""})
        elif e["k"] == "ret":
            ev.append({"k": "ret", "s": e["s"], "t": "", "hs": False, "res": e["res"]})
        elif e["k"] in ("stuck", "lost"):
            return None
    err = sorted(i + 1 for i, a in enumerate(acks) if not bytes(a).lower().startswith(b"ok"))
    return {"n": len(stmts), "err": err, "status": sorted(status), "ev": ev}


def impl_conformance(traces, specs):
    import os
    from concurrent.futures import ThreadPoolExecutor
    from .common import workdir, write_json
    groups = {}
    for i, (t, sp) in enumerate(zip(traces, specs)):
        p = project(t, sp)
        if p is not None:
            groups.setdefault((p["n"], tuple(p["err"]), tuple(p["status"])), []).append((i, p))

    def one(item):
        (n, err, st), items = item
        path = os.path.join(workdir(), "dwconf_%d_%s_%s.json" % (n, "".join(map(str, err)), "".join(map(str, st))))
        write_json(path, [p for _, p in items])
        c = ("SPECIFICATION TSpec\nCONSTANTS\n NStmt = %d\n ErrAt = {%s}\n StatusAt = {%s}\n LossAllowed = FALSE\n WaitWithoutListener = FALSE\n"
             % (n, ",".join(map(str, err)), ",".join(map(str, st))))
        r = tlc.validate("DirectWriteImplTrace", c, path, heap="1g", tag="dwconf")
        if r.errors:
            raise flow.MachineryError("DirectWriteImplTrace failed: %s\n%s" % (r.errors[:2], r.stdout[-1500:]))
        ok = {t[1] for t in r.tuples if t and t[0] == "A"}
        return len(items), len(ok), [items[j - 1][0] for j in range(1, len(items) + 1) if j not in ok]
    tot = acc = 0
    rej = []
    with ThreadPoolExecutor(max_workers=10) as ex:
        for a, b, c in ex.map(one, groups.items()):
            tot += a
            acc += b
            rej += c
    return acc, tot, rej


class P(flow.Plan):
    pid = "C16"
    clauses = ["C16_Order", "C16_Sync", "C16_Error", "C16_Alarm", "C16_Returns", "C16_Disconnect", "C16_Loss", "H_Device"]
    trace_module = "DirectWriteTrace"
    shards = 8
    assumptions = ["the device answers every received line with exactly one acknowledgement, in order (scripted serial port)",
                   "a 20 ms window before each acknowledgement gives a too-eager write() the chance to return; waits are never verdicts",
                   "printrun_writer.POLLING_INTERVAL is shortened by the harness (timing only)"]

    def extra(self, tier, sd):
        """C16_Reading -- 'a reading requested by the previous statement is available when write() returns': statements answered
        by one or more report lines (unsolicited status first, the requested reading last) before the ok; after write() returned,
        get_parameter must show what the device said last for every letter.  Decided by ReportsTrace (the report grammar of C18)
        on executions of the real writer (added after seed C16c)."""
        import copy as _c
        import random as _r
        from . import check_c18
        n = 40 if tier == "thorough" else 12
        plans = []
        for i in range(n):
            rng = _r.Random(sd * 9173 + i)
            plan = check_c18.make_plan(rng, rng.randint(2, 4), ok_rate=0.15)
            for st in plan:                       # at least two reports before most acknowledgements
                while len(st["status"]) < 2 and rng.random() < 0.8:
                    line, rep = check_c18.make_report(rng, rng.choice(["grbl", "prb", "marlin_pos", "grbl_w"]))
                    st["status"].append((list(line), rep))
            plans.append({"plan": plan, "mode": "socket" if i % 2 else "serial"})
        traces = flow.pool_map(check_c18._one, plans, par=8)
        ctl = _c.deepcopy(traces[0])
        chk = [k for k, e in enumerate(ctl["ev"]) if e["k"] == "check"][-1]
        ctl["ev"][chk]["readings"]["Z"] = {"k": True, "v": 123456}
        rp = check_c18.P()
        failures, done, _ = flow.validate(rp, traces + [ctl])
        if not [f for f in failures if f[0] == len(traces) and f[2] == "C18_Readings"]:
            raise flow.MachineryError("C16_Reading: the planted wrong reading was not detected")
        checks = sum((done[i][1] or {}).get("C18_Readings", 0) for i in range(len(traces)))
        if checks == 0:
            raise flow.MachineryError("C16_Reading never exercised")
        out, seen = [], set()
        for f in failures:
            if f[0] < len(traces) and f[2] == "C18_Readings" and f[0] not in seen:
                seen.add(f[0])
                out.append({"clause": "C16_Reading", "step": f[1], "meta": traces[f[0]]["meta"], "input": plans[f[0]],
                            "failing_event": rp.brief(traces[f[0]], f[1])})
        return out, {"C16_Reading": {"executions": len(traces), "returns_checked": checks, "violations": len(out),
                                     "negative_control_detected": True}}

    def model_runs(self, tier):
        runs = []
        for err, status in ([[2], [1, 3]], [[], []], [[1, 3], [2]]):
            runs.append(("dw-err%s" % "".join(map(str, err)), "DirectWriteImpl",
                         cfg(3, err, status, ["Order", "SyncModuloF12", "ErrorsSurface"]), None, []))
        runs.append(("dw-strict", "DirectWriteImpl", cfg(3, [2], [1], ["SyncStrict"], live=False), None, ["SyncStrict"]))
        # connection loss at any position after connect(): every write() returns, and raises after the drop
        runs.append(("dw-loss", "DirectWriteImpl", cfg(3, [2], [1], ["Order", "SyncModuloF12", "ErrorsSurface", "LossSurfaces"], loss=True), None, []))
        # the code before fix F20: a write() after a drop that happened while idle never returns
        runs.append(("dw-loss-F20", "DirectWriteImpl", cfg(2, [], [], ["LossSurfaces"], loss=True, old_wait=True), None, ["AllReturn"]))
        # the empty start-up print of connect(), with and without line numbers (a Grbl greeting switches them off); the code
        # before fix F24 lowered `clear` although nothing was sent: connect() never returned
        sc = "SPECIFICATION Spec\nCONSTANTS\n LineNumbers = %s\n StartAlwaysWaits = %s\nPROPERTY Returns\nCHECK_DEADLOCK FALSE\n"
        runs.append(("startup-marlin", "StartupImpl", sc % ("TRUE", "FALSE"), None, []))
        runs.append(("startup-grbl", "StartupImpl", sc % ("FALSE", "FALSE"), None, []))
        runs.append(("startup-grbl-F24", "StartupImpl", sc % ("FALSE", "TRUE"), None, ["Returns"]))
        return runs

    def behaviours(self, tier, sd):
        # The model's schedules differ only in when the start-up ok arrives and where errors/status lines sit:
        # enumerate those choices completely instead of sampling them.
        specs = []
        rng = random.Random(sd)
        n = 3
        for late in (False, True):
            for errmask in range(2 ** n):
                for stmask in (0, 1, 5, 7):
                    stmts = [STMTS[(errmask + i) % len(STMTS)] for i in range(n)]
                    acks = [rng.choice(ERRS) if errmask >> i & 1 else b"ok\n" for i in range(n)]
                    status = {i + 1: [STATUS[(i + stmask) % len(STATUS)]] for i in range(n) if stmask >> i & 1}
                    specs.append((stmts, acks, status, late))
        if tier != "thorough":
            specs = specs[::2]
        traces = run_all(specs)
        for t in traces:
            t["meta"]["driver"] = "model-schedules"
        acc, tot, rej = impl_conformance(traces, specs)
        # the binding is live: a trace in which write(2) returns before write(1) must be rejected
        bad = copy.deepcopy(traces[0])
        for e in bad["ev"]:
            if e["k"] == "ret":
                e["s"] = 3 - e["s"] if e["s"] in (1, 2) else e["s"]
        a2, t2, _ = impl_conformance([bad], [specs[0]])
        if t2 == 1 and a2 == 1:
            raise flow.MachineryError("DirectWriteImplTrace accepted a trace with swapped returns")
        extra = {"impl_level_traces_accepted_by_DirectWriteImpl": acc, "impl_level_traces_checked": tot,
                 "impl_level_corrupted_trace_rejected": t2 == 1 and a2 == 0,
                 "drift_count": tot - acc, "drift_notes": [enc(specs[i]) for i in rej[:3]]}
        return traces, [enc(s) for s in specs], extra

    def executions(self, tier, sd):
        n = 200 if tier == "thorough" else 40
        specs = []
        for i in range(n):
            rng = random.Random(sd * 9973 + i)
            k = rng.randint(1, 6)
            if i % 9 == 4:
                k = max(k, 2)                  # the alarm scenarios need a statement after the alarm
            stmts = [rng.choice(STMTS) for _ in range(k)]
            if i % 8 == 3:
                stmts[rng.randrange(k)] = NONASCII     # what the builder emits for a comment with non-ASCII text
            acks = [rng.choice(ERRS) if rng.random() < 0.25 else rng.choice([b"ok\n", b"ok T:20.0 /0.0\n", b"OK\n"]) for _ in range(k)]
            status = {j + 1: [rng.choice(STATUS) for _ in range(rng.randint(1, 2))] for j in range(k) if rng.random() < 0.3}
            lose = rng.randint(1, k) if i % 5 == 4 else 0          # connection loss while statement `lose` is in flight
            # arbitrary acknowledgement latency: longer than the writer's own (connection) timeout
            slow = (rng.randint(1, k), 0.25, 0.6) if i % 7 == 2 and not lose else None
            # every third scenario goes through a SocketWriter (TCP: no line numbers; replies arrive in two fragments)
            mode = "socket" if i % 3 == 1 else "serial"
            # connection loss at another position: while nothing is in flight (after statement `idle` returned); every later
            # write() must raise, and return
            idle = rng.randint(1, k - 1) if i % 10 == 7 and k >= 2 and not lose and not slow else 0
            if idle:
                acks = [b"ok\n"] * k
            # zero latency: status lines and acknowledgement of the chosen statements are handled by the reader thread before
            # the sender's write() returns
            inst = sorted(rng.sample(range(1, k + 1), rng.randint(1, k))) if i % 6 == 5 and not lose and not slow and not idle else []
            # an error / alarm line while no statement is outstanding (added after seed C16d): the next write() raises it
            alarms = {}
            if i % 9 == 4 and k >= 2 and not lose and not slow and not idle and not inst:
                alarms = {rng.randint(1, k - 1): [rng.choice(ERRS)]}
            # the serial port refuses a write while reads keep timing out (added after seed C16f): that write() raises
            wfail = rng.randint(1, k) if i % 13 == 6 and mode == "serial" and not lose and not slow and not idle and not inst and not alarms else 0
            specs.append((stmts, acks, status, rng.random() < 0.15 and not lose and not slow and not idle and not inst and not alarms and not wfail,
                          lose if mode == "serial" else 0, slow, mode, idle, inst, alarms, wfail, i % 5 == 3,     # DEBUG logging on
                          # connect() again on the connected writer before some statement (added after seed C16h)
                          [rng.randint(1, k)] if i % 6 == 2 and not (lose or slow or idle or inst or alarms or wfail) else [],
                          # "all device behaviours": a Grbl controller greets with its banner and then acknowledges the probe
                          [b"Grbl 1.1h ['$' for help]\n", b"ok\n"] if i % 10 == 7 else []))
        traces = run_all(specs)
        for t in traces:
            t["meta"]["driver"] = "random"
        return traces, [enc(s) for s in specs]

    def replay(self, payload):
        return run_all([dec(payload["input"])], par=1), [payload["input"]]

    def _txt(self, e):
        return {"k": e["k"], "text": bytes(e["text"]).decode("utf-8", "replace"), "s": e["s"], "res": e["res"], "hs": e["hs"]}

    def sample(self, t):
        return {"meta": t["meta"], "ev": [self._txt(e) for e in t["ev"][:16]]}

    def brief(self, trace, step):
        return {"event": self._txt(trace["ev"][step - 1]), "trace": [self._txt(e) for e in trace["ev"]][:40]}

    def controls(self, base):
        b = run_all([([b"G1 X1\n", b"M114\n", b"G1 X2\n"], [b"ok\n", b"Error: bad\n", b"ok\n"], {2: [STATUS[0]]}, False)], par=1)[0]

        def mut(clause, step, fn):
            t = copy.deepcopy(b)
            fn(t)
            t["meta"]["control"] = {"clause": clause, "step": step}
            return t

        def idx(pred):
            return [i for i, e in enumerate(b["ev"]) if pred(e)]
        rets = idx(lambda e: e["k"] == "ret")
        txs = idx(lambda e: e["k"] == "tx" and b"M110" not in bytes(e["text"]) and not bytes(e["text"]).startswith(b"G4"))
        rels = idx(lambda e: e["k"] == "rel" and not e["hs"])

        def swap(t, i, j):
            t["ev"][i], t["ev"][j] = t["ev"][j], t["ev"][i]
        lossy = run_all([([b"G1 X1\n", b"M114\n"], [b"ok\n", b"ok\n"], {}, False, 2)], par=1)[0]
        lossy = copy.deepcopy(lossy)
        lr = [i for i, e in enumerate(lossy["ev"]) if e["k"] == "ret"][-1]
        lossy["ev"][lr]["res"] = "ok"
        lossy["meta"]["control"] = {"clause": "C16_Loss", "step": lr + 1}
        return [
            lossy,
            mut("C16_Order", txs[1] + 1, lambda t: t["ev"][txs[1]].__setitem__("text", list(b"M115\n"))),
            mut("C16_Sync", 0, lambda t: swap(t, rets[0], rets[0] - 1)),      # write(1) returned before its ok was handed over
            mut("C16_Error", rets[1] + 1, lambda t: t["ev"][rets[1]].__setitem__("res", "ok")),
            mut("C16_Returns", 0, lambda t: t["ev"].insert(rets[2], {"k": "stuck", "text": [], "s": 3, "res": "", "hs": False, "alive": False})),
            mut("C16_Disconnect", 0, lambda t: t["ev"].__delitem__(slice(txs[2], rets[2] + 1))),
        ]


def run(pid, tier, replay=None):
    if replay:
        import json
        with open(replay) as fh:
            payload = json.load(fh)
        if payload.get("clause") == "C16_Reading":          # decided by ReportsTrace: re-execute that plan on the real writer
            from . import check_c18
            from .common import EXIT_OK, EXIT_VIOLATION, say
            inp = payload["input"]
            inp["plan"] = [{"status": [(x[0], x[1]) for x in st["status"]], "ack": tuple(st["ack"]) if st["ack"] else None} for st in inp["plan"]]
            traces = flow.pool_map(check_c18._one, [inp], par=1)
            failures, _, _ = flow.validate(check_c18.P(), traces)
            bad = [f for f in failures if f[2] == "C18_Readings"]
            if bad:
                say("VIOLATION property=C16 replay=%s" % replay)
                say("  clause C16_Reading false at step %d" % bad[0][1])
                return EXIT_VIOLATION
            say("C16 replay: C16_Reading held on this plan")
            return EXIT_OK
    return flow.run(P(), tier, replay)
