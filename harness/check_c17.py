"""C17 -- socket input is split into lines independently of packet boundaries."""
import copy
import random

from . import flow, tlaval, tlc, sock_rec


def cfg(n, again, chunk, props=True):
    c = ["SPECIFICATION Spec", "CONSTANTS", " N = %d" % n, " MaxAgain = %d" % again, " MaxChunk = %d" % chunk]
    if props:
        c += ["INVARIANT BufInv", "INVARIANT Conservation", "INVARIANT DoneComplete", "PROPERTY LinesOK"]
    return "\n".join(c) + "\n"


def script_from_behaviour(states):
    """Project a SockLinesImpl behaviour onto what the peer did: chunk sizes, None results, select() answers."""
    st0 = states[0][1]
    n_lfs = set(st0["lfs"])
    script, sel = [], []
    prev = st0
    for hdr, st in states[1:]:
        if hdr and (hdr.startswith("<Loop") or hdr.startswith("<Sel")):
            if st["pos"] > prev["pos"]:
                script.append(st["pos"] - prev["pos"])
            elif st["again"] > prev["again"]:
                script.append("again")
                if hdr.startswith("<Loop"):
                    sel.append(st["pc"] == "sel")
            else:
                script.append("eof")
        prev = st
    return n_lfs, script, sel


class P(flow.Plan):
    pid = "C17"
    clauses = ["C17_Line", "C17_Eof", "C17_Terminates", "C17_AfterEof"]
    trace_module = "SockLinesTrace"
    assumptions = ["the peer is a scripted socket file: read(256) returns a chunk, None (no data yet) or b'' (closed); "
                   "select() answers as scripted", "EOF is signalled only after every byte was handed out"]

    def model_runs(self, tier):
        n = 9 if tier == "thorough" else 6
        return [("sock-lines", "SockLinesImpl", cfg(n, 2, n), None, [])]

    def behaviours(self, tier, sd):
        nb = 600 if tier == "thorough" else 120
        n = 8
        r, files = tlc.simulate("SockLinesImpl", cfg(n, 3, n, props=False), num=nb, depth=40, seed=sd % (2 ** 31))
        traces, inputs = [], []
        for f in files:
            states = tlaval.parse_behaviour_file(f)
            lfs, script, sel = script_from_behaviour(states)
            stream = bytes(10 if (i + 1) in lfs else 100 + i + 1 for i in range(n))
            traces.append(sock_rec.run_script(stream, script, sel))
            inputs.append({"stream": list(stream), "script": script, "sel": sel})
        return traces, inputs, {}

    def executions(self, tier, sd):
        n = 1500 if tier == "thorough" else 300
        traces, inputs = [], []
        for i in range(n):
            rng = random.Random(sd * 31337 + i)
            ln = rng.choice([0, 1, 5, 40, 300, 700]) if i % 5 else rng.randint(0, 1200)
            p_lf = rng.choice([0.0, 0.02, 0.1, 0.5, 1.0])
            if i % 7 == 3:
                ln, p_lf = rng.choice([300, 500, 700]), rng.choice([0.0, 0.002, 0.004])
            stream = bytes(10 if rng.random() < p_lf else rng.randint(0, 255) for _ in range(ln))
            if rng.random() < 0.5 and stream and stream[-1] != 10:
                stream += b"\n"
            script, left = [], len(stream)
            while left > 0:
                if rng.random() < 0.25:
                    script += ["again"] * rng.randint(1, 3)
                k = rng.choice([1, 1, 2, 3, 7, 64, 255, 256, 256]) if rng.random() < 0.7 else rng.randint(1, 256)
                if i % 7 == 3:
                    k = rng.randint(1, 3)       # a long line trickling in (added after seed C17f: a cap on buffered fragments)
                k = min(k, left)
                script.append(k)
                left -= k
            script += ["again"] * rng.randint(0, 2) + ["eof"]
            sel = [rng.random() < 0.5 for _ in range(len(script))]
            # every third execution: the host write()s a command before some of its readline() calls (added after seed C17h)
            wr = [rng.random() < 0.5 for _ in range(3 * len(script) + 8)] if i % 3 == 1 else []
            if wr:
                sel = [rng.random() < 0.7 for _ in range(3 * len(script) + 8)]
            traces.append(sock_rec.run_script(stream, script, sel, writes=wr))
            inputs.append({"stream": list(stream), "script": script, "sel": sel, "writes": wr})
            if i % 10 == 4 and stream:
                # the same Device object connected again afterwards (added after seed C17i); the first connection ends with an
                # unterminated tail, as a peer that dies in mid-line leaves it
                first = bytes(stream).rstrip(b"\n") + b"half"
                fs = [min(64, len(first))] * (len(first) // 64 + 1) + ["eof"]
                two = sock_rec.run_sessions([(first, fs, [True] * len(fs)), (stream, script, sel)])
                for t, (st, sc, se) in zip(two, [(first, fs, [True] * len(fs)), (stream, script, sel)]):
                    traces.append(t)
                    inputs.append({"stream": list(st), "script": sc, "sel": se, "writes": [], "sessions": [list(first), fs]})
        return traces, inputs

    def replay(self, payload):
        inp = payload["input"]
        if inp.get("sessions"):          # a connection of a Device that had served another one before: replay both, judge the second
            first, fs = bytes(inp["sessions"][0]), inp["sessions"][1]
            two = sock_rec.run_sessions([(first, fs, [True] * len(fs)), (bytes(inp["stream"]), inp["script"], inp["sel"])])
            return [two[1]], [inp]
        return [sock_rec.run_script(bytes(inp["stream"]), inp["script"], inp["sel"], writes=inp.get("writes"))], [inp]

    def sample(self, t):
        return {"meta": t["meta"], "stream": t["stream"][:40], "ev": t["ev"][:6]}

    def controls(self, base):
        b = sock_rec.run_script(b"ab\ncd\nef", [2, "again", 3, 3, "eof"], [True])

        def mut(clause, step, fn):
            t = copy.deepcopy(b)
            fn(t)
            t["meta"]["control"] = {"clause": clause, "step": step}
            return t
        lines = [i for i, e in enumerate(b["ev"]) if e["k"] == "line"]
        eofs = [i for i, e in enumerate(b["ev"]) if e["k"] == "eof"]
        out = [
            mut("C17_Line", lines[1] + 1, lambda t: t["ev"][lines[1]]["b"].pop(0)),              # a byte lost
            mut("C17_Line", lines[0] + 1, lambda t: t["ev"][lines[0]]["b"].extend([99, 100])),   # not cut after LF
            mut("C17_Eof", eofs[0] + 1, lambda t: t["ev"].__delitem__(lines[-1])),               # tail never delivered
            mut("C17_Terminates", 0, lambda t: t.__setitem__("ev", [e for e in t["ev"] if e["k"] != "eof"])),
            mut("C17_AfterEof", len(b["ev"]), lambda t: t["ev"][-1].update(k="line", b=[120, 10])),
        ]
        out[2]["meta"]["control"]["step"] = eofs[0]       # one event was removed before it
        return out


def run(pid, tier, replay=None):
    return flow.run(P(), tier, replay)
