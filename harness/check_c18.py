"""C18 -- device reports are parsed into the readings the caller asks for."""
import copy
import logging
import random

from . import flow, tlc
from .builder_check import tla_set

LETTERS = ["X", "Y", "Z", "A", "B", "C", "E", "F", "S", "T"]


def fmt(v, rng):
    """milli-units -> decimal text with 1..3 decimals (exact)."""
    s = "-" if v < 0 else ""
    a = abs(v)
    txt = "%d.%03d" % (a // 1000, a % 1000)
    keep = rng.choice([3, 3, 2, 1]) if a % 10 == 0 else 3
    if keep == 2 and a % 10 != 0:
        keep = 3
    if keep == 1 and a % 100 != 0:
        keep = 3
    return s + txt[:len(txt) - (3 - keep)]


def val(rng):
    return rng.choice([0, 1000, -1500, 2250, 210500, 60100, -3500]) if rng.random() < 0.5 else rng.randint(-300000, 300000)


def make_report(rng, family=None):
    """-> (line bytes, abstract report {toks, grbl, ok})"""
    family = family or rng.choice(["marlin_pos", "marlin_temp", "marlin_temp_ok", "grbl", "prb", "grbl_w"])
    toks, grbl, ok = [], False, False
    if family == "marlin_pos":
        axes = ["X", "Y", "Z", "E"]
        if rng.random() < 0.4:
            rng.shuffle(axes)
        first = [(a, val(rng)) for a in axes]
        count = [(a, rng.randint(0, 99999) * 1000) for a in ["X", "Y", "Z"]]
        text = " ".join("%s:%s" % (a, fmt(v, rng)) for a, v in first) + " Count " + " ".join("%s:%d" % (a, v // 1000) for a, v in count)
        toks = [{"key": a, "vals": [v]} for a, v in first + count]
    elif family in ("marlin_temp", "marlin_temp_ok"):
        fields = [("T", val(rng), val(rng)), ("B", val(rng), val(rng))]
        if rng.random() < 0.3:
            fields.append(("T0", val(rng), val(rng)))
        if rng.random() < 0.4:
            rng.shuffle(fields)
        text = " ".join("%s:%s /%s" % (k, fmt(a, rng), fmt(b, rng)) for k, a, b in fields) + " @:0 B@:0"
        toks = [{"key": k, "vals": [a]} for k, a, b in fields]
        if family.endswith("_ok"):
            text, ok = "ok " + text, True
    elif family in ("grbl", "grbl_w"):
        pos = [val(rng) for _ in range(3)]
        fs = [abs(val(rng)), abs(val(rng))]
        key = "MPos" if family == "grbl" else "WPos"
        parts = ["%s:%s" % (key, ",".join(fmt(v, rng) for v in pos)), "FS:%s" % ",".join(fmt(v, rng) for v in fs)]
        tk = [{"key": key, "vals": pos}, {"key": "FS", "vals": fs}]
        if rng.random() < 0.5:
            parts.reverse()
            tk.reverse()
        if rng.random() < 0.5:
            # the other fields a Grbl status report carries now and then (added after seed C18j: the work coordinate offset
            # subtracted from the machine position just read): none of them is a reading of X/Y/Z, F or S
            wco = [val(rng) for _ in range(3)]
            extra = [("WCO:%s" % ",".join(fmt(v, rng) for v in wco), {"key": "WCO", "vals": wco}),
                     ("Ov:100,100,%d" % rng.choice([50, 100, 120]), {"key": "Ov", "vals": [100000, 100000, 100000]}),
                     ("Bf:15,128", {"key": "Bf", "vals": [15000, 128000]}), ("Ln:%d" % rng.randint(1, 999), {"key": "Ln", "vals": [1000]})]
            for txt, tok in rng.sample(extra, rng.randint(1, 3)):
                parts.append(txt)
                tk.append(tok)
        text = "<%s|%s>" % (rng.choice(["Idle", "Run", "Hold", "Alarm", "Door:1", "Check", "Home", "Jog", "Sleep", "Error"]), "|".join(parts))
        toks, grbl = tk, True
    else:
        pos = [val(rng) for _ in range(3)]
        text = "[PRB:%s:1]" % ",".join(fmt(v, rng) for v in pos)
        toks = [{"key": "PRB", "vals": pos}]
    return (text + "\n").encode("ascii"), {"toks": toks, "grbl": grbl, "ok": ok}


def _one(args):
    from . import serial_rec
    from .common import set_logging
    plan, mode = (args["plan"], args["mode"]) if isinstance(args, dict) else (args, "serial")
    set_logging(isinstance(args, dict) and bool(args.get("verbose")))
    stmts = [b"M114\n"] * len(plan)
    acks = [bytes(p["ack"][0]) if p["ack"] else b"ok\n" for p in plan]
    status = {k + 1: [bytes(x[0]) for x in p["status"]] for k, p in enumerate(plan) if p["status"]}
    boot = args.get("boot") if isinstance(args, dict) else None
    grbl = isinstance(args, dict) and args.get("grbl")
    t = serial_rec.run_direct(stmts, acks, status=status, readings=True, do_disconnect=False, settle=0.005, mode=mode,
                              boot_reply=bytes(boot[0]) if boot else ([b"Grbl 1.1h ['$' for help]\n", b"ok\n"] if grbl else None))
    ev = []
    if boot:
        ev.append({"k": "report", "toks": boot[1]["toks"], "grbl": boot[1]["grbl"], "ok": boot[1]["ok"], "readings": _none()})
    k = 0
    for e in t["ev"]:
        if e["k"] == "ret":
            k += 1
            p = plan[k - 1]
            for line, rep in p["status"]:
                ev.append({"k": "report", "toks": rep["toks"], "grbl": rep["grbl"], "ok": rep["ok"], "readings": _none()})
            if p["ack"]:
                rep = p["ack"][1]
                ev.append({"k": "report", "toks": rep["toks"], "grbl": rep["grbl"], "ok": rep["ok"], "readings": _none()})
            ev.append({"k": "check", "toks": [], "grbl": False, "ok": False, "readings": e["readings"], "res": e["res"]})
    return {"meta": {"mode": mode, "verbose": isinstance(args, dict) and bool(args.get("verbose")), "lines": [[bytes(x[0]).decode() for x in p["status"]] + ([bytes(p["ack"][0]).decode()] if p["ack"] else ["ok"]) for p in plan]},
            "ev": ev}


def _none():
    return {l: {"k": False, "v": 0} for l in LETTERS}


def make_plan(rng, n, ok_rate=0.3):
    plan = []
    said = []          # report lines the device has sent before: a periodic status report repeats verbatim while nothing moves
    for _ in range(n):
        status = []
        for _ in range(rng.choice([0, 1, 1, 2])):
            if said and rng.random() < 0.35:              # (added after seed C18c: an identical line was not parsed again)
                line, rep = rng.choice(said)
            else:
                line, rep = make_report(rng, rng.choice(["marlin_pos", "marlin_temp", "grbl", "prb", "grbl_w"]))
                line = list(line)
                said.append((line, rep))
            status.append((list(line), rep))
        ack = None
        if rng.random() < ok_rate:
            line, rep = make_report(rng, "marlin_temp_ok")
            ack = (list(line), rep)
        plan.append({"status": status, "ack": ack})
    return plan


class P(flow.Plan):
    pid = "C18"
    clauses = ["C18_Readings", "C18_OkPrefixed", "C18_Kept"]
    trace_module = "ReportsTrace"
    shards = 8
    assumptions = ["report lines are rendered by the driver from abstract token sequences; the tokens are what the contract reads",
                   "values are decimals with at most 3 places (milli-units are exact)"]

    def model_runs(self, tier):
        defs = {"cKeys": tla_set(["X", "T", "B", "MPos", "FS", "PRB", "Count", "E"]), "cVals": "{-1500, 2250}"}
        root = tlc.wrapper("MCReports", "ReportsImpl", defs)

        def cfg(flag, nrep):
            return "\n".join(["SPECIFICATION Spec", "CONSTANTS", " Keys <- cKeys", " Vals <- cVals", " MaxToks = 2",
                              " MaxReports = %d" % nrep, " OkBranchReturnsFirst = %s" % flag, "INVARIANT Agrees"]) + "\n"
        return [("reports", "MCReports", cfg("FALSE", 2), root, []),
                ("reports-F10", "MCReports", cfg("TRUE", 1), root, ["Agrees"])]

    def executions(self, tier, sd):
        n = 240 if tier == "thorough" else 48
        plans = []
        for i in range(n):
            rng = random.Random(sd * 4099 + i)
            # every third execution runs with DEBUG logging enabled process-wide (added after seed C18g)
            plans.append({"plan": make_plan(rng, rng.randint(1, 5)), "mode": "socket" if i % 2 else "serial", "verbose": i % 3 == 2})
            if i % 4 == 3:
                plans[-1]["grbl"] = True          # the device greets with a Grbl banner: no line numbers from then on
            if i % 4 == 1:
                # the line that brings the host online is a report itself: "ok T:.. B:.." answering the probe, or a bare auto-report
                line, rep = make_report(rng, rng.choice(["marlin_temp_ok", "marlin_temp"]))
                plans[-1]["boot"] = (list(line), rep)
        traces = flow.pool_map(_one, plans, 12)
        return traces, plans

    def replay(self, payload):
        return flow.pool_map(_one, [payload["input"]], 1), [payload["input"]]

    def sample(self, t):
        return {"meta": t["meta"], "ev": t["ev"][:5]}

    def brief(self, trace, step):
        e = trace["ev"][step - 1]
        return {"k": e["k"], "readings": {k: v["v"] for k, v in e["readings"].items() if v["k"]}, "lines": trace["meta"]["lines"]}

    def controls(self, base):
        rng = random.Random(5)
        b = flow.pool_map(_one, [make_plan(rng, 3, ok_rate=1.0)], 1)[0]
        t = copy.deepcopy(b)
        chk = [i for i, e in enumerate(t["ev"]) if e["k"] == "check"][1]
        r = t["ev"][chk]["readings"]["T"]
        r["v"] += 1
        t["meta"]["control"] = {"clause": "C18_Readings", "step": chk + 1}
        return [t]


def run(pid, tier, replay=None):
    return flow.run(P(), tier, replay)
