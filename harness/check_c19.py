"""C19 -- heightmaps interpolate faithfully and sample paths within tolerance."""
import copy
import math
import os
import random
import tempfile

import numpy as np

from . import flow, tlc
from .common import workdir


def zq(z):
    return int(round(float(z) * 1000))


def raster_event(rng):
    from gscrib.heightmaps import RasterHeightMap
    h, w = rng.randint(4, 12), rng.randint(4, 12)
    deep = rng.random() < 0.4
    mx = 65535 if deep else 255
    # value ranges (added after seed C19c: a 16-bit image whose brightest pixel is <= 255): full, dark, bright, narrow band
    lo, hi = rng.choice([(0, mx), (0, mx), (0, min(mx, 255)), (0, 40), (mx - 200, mx), (mx // 2, mx // 2 + 3)])
    img = np.array([[rng.choice([lo, hi, rng.randint(lo, hi)]) for _ in range(w)] for _ in range(h)], dtype=np.uint16 if deep else np.uint8)
    if rng.random() < 0.3:      # through a real image file, as a user would
        import cv2
        path = os.path.join(tempfile.mkdtemp(dir=workdir()), "map.png")
        cv2.imwrite(path, img)
        m = RasterHeightMap.from_path(path)
    else:
        m = RasterHeightMap(img)
    qxy = [(rng.randint(-2, w + 1), rng.randint(-2, h + 1)) for _ in range(25)]
    lines = []
    for _ in range(6):
        line = [rng.randint(0, w - 1), rng.randint(0, h - 1), rng.randint(0, w - 1), rng.randint(0, h - 1)]
        if rng.random() < 0.15:
            line[rng.randrange(4)] = rng.choice([-2, max(w, h) + 1])
        lines.append(line)

    def measure(scale, tol):
        m.set_scale(scale)
        m.set_tolerance(tol)
        queries = [[x, y, zq(m.get_depth_at(x, y))] for x, y in qxy]
        paths = []
        for line in lines:
            pts = m.sample_path([float(v) for v in line])
            paths.append({"line": line, "pts": [[int(round(p[0])), int(round(p[1])), zq(p[2])] for p in pts]})
        return {"kind": "raster", "exact": False, "w": w, "h": h, "max": mx, "scale": zq(scale), "tol": zq(tol), "img": img.astype(int).tolist(),
                "pts": [], "queries": queries, "paths": paths}
    out = [measure(rng.choice([0.5, 1.0, 2.0, 10.0]), rng.choice([0.05, 0.2, 0.5, 1.0, 3.0]))]
    if rng.random() < 0.5:      # the same map object re-scaled and asked the same questions again (added after seed C19d)
        out.append(measure(rng.choice([0.25, 3.0, 7.0]), rng.choice([0.1, 0.4, 2.0])))
    return out


def sparse_event(rng):
    from gscrib.heightmaps import SparseHeightMap
    n = rng.randint(4, 8)
    # coordinates with one decimal in half of the maps (added after seed C19e: a CSV loaded in single precision moved
    # 12.7 and 8.3 off the hull); the specification sees them in tenths, as integers
    k = 10 if rng.random() < 0.5 else 1
    while True:
        pts = {}
        while len(pts) < n:
            pts[(rng.randint(0, 20 * k), rng.randint(0, 20 * k))] = rng.choice([rng.randint(-10, 10) * 0.5, round(rng.uniform(-5, 5), 3)])
        P = [[x, y, z] for (x, y), z in pts.items()]
        # non-collinear
        if any((P[1][0] - P[0][0]) * (p[1] - P[0][1]) - (P[1][1] - P[0][1]) * (p[0] - P[0][0]) != 0 for p in P[2:]):
            break
    R = [[p[0] / k, p[1] / k, p[2]] for p in P]          # real coordinates
    if rng.random() < 0.5:
        path = os.path.join(tempfile.mkdtemp(dir=workdir()), "map.csv")
        np.savetxt(path, np.array(R, dtype=float), delimiter=",", fmt="%.6f")
        m = SparseHeightMap.from_path(path)
    else:
        m = SparseHeightMap(np.array(R, dtype=float))
    qxy = [(p[0], p[1]) for p in P] + [(rng.randint(-3 * k, 23 * k), rng.randint(-3 * k, 23 * k)) for _ in range(25)]
    qxy = [(x, y, k) for x, y in qxy]
    lines = []
    for _ in range(4):
        line = [rng.randint(0, 20), rng.randint(0, 20), rng.randint(0, 20), rng.randint(0, 20)]
        if line[0] == line[2] and line[1] == line[3]:
            line[2] = (line[2] + 3) % 21
        lines.append(line)
    out = [_sparse_measure(m, P, qxy, lines, rng.choice([0.5, 1.0, 2.0, 10.0]), rng.choice([0.27, 0.61, 1.13]))]
    if rng.random() < 0.5:      # the same map object re-scaled and asked the same questions again (added after seed C19d)
        out.append(_sparse_measure(m, P, qxy, lines, rng.choice([0.25, 3.0, 7.0]), rng.choice([0.33, 0.9])))
    return out


def fine_event(rng):
    """A sparse map sampled with a tolerance of a few thousandths over a short sloping line (added after seed C19j: tolerances
    below 0.01 silently raised to 0.01)."""
    from gscrib.heightmaps import SparseHeightMap
    P = [[x, y, round(rng.uniform(0.5, 2.0) * x + rng.uniform(-1, 1) * y, 3)] for x in range(0, 5) for y in range(0, 4)]
    m = SparseHeightMap(np.array(P, dtype=float))
    lines = []
    for _ in range(3):
        x0, y0 = round(rng.uniform(0.5, 3.0), 3), round(rng.uniform(0.5, 2.5), 3)
        ang = rng.uniform(-0.5, 0.5)
        ln = rng.uniform(0.06, 0.2)
        lines.append([x0, y0, round(x0 + ln * math.cos(ang), 3), round(y0 + ln * math.sin(ang), 3)])
    qxy = [(p[0], p[1], 1) for p in P[:8]]
    return [_sparse_measure(m, P, qxy, lines, 1.0, rng.choice([0.004, 0.005, 0.008]))]


def staircase_event(rng):
    """A sparse map whose heights step by exactly the tolerance from one sample to the next (added after seed C19i: `>` for
    `>=` in the path filter): whole-number probe data z = step * x on an integer grid, lines along X.  Every sample then
    differs from its neighbour by exactly one tolerance and has to be kept.  The event is marked exact only if the recorder's
    own floating-point evaluation confirms that every candidate height is the exact value."""
    from gscrib.heightmaps import SparseHeightMap
    step = rng.choice([1.0, 0.5, 2.0])
    nx, ny = rng.randint(4, 7), rng.randint(3, 5)
    P = [[x, y, step * x] for x in range(nx + 1) for y in range(ny + 1)]
    m = SparseHeightMap(np.array(P, dtype=float))
    y0 = rng.randint(1, ny - 1)
    xv = rng.randint(0, nx)
    lines = [[0, y0, nx, y0], [nx, y0, 1, y0], [xv, 0, xv, ny]]
    qxy = [(p[0], p[1], 1) for p in P[:10]]
    tol = step if step <= 1.0 else 1.0
    # spacing of the candidates is the tolerance; heights step by `step * tol` per sample: equal to the tolerance when step = 1,
    # half of it (dropped every other one) when step = 0.5, twice (all kept) when step = 2
    ev = _sparse_measure(m, P, qxy, lines, 1.0, tol)
    exact = True
    for line, pth in zip(lines, ev["paths"]):
        for c in pth["cand"]:
            x, y = c[0] / 1000.0, c[1] / 1000.0
            if float(m.get_depth_at(x, y)) != step * x or 2 * x != round(2 * x) or 2 * y != round(2 * y):
                exact = False
    ev["exact"] = bool(exact)
    return [ev]


def _sparse_measure(m, P, qxy, lines, scale, tol):
    m.set_scale(scale)
    m.set_tolerance(tol)
    queries = [[x, y, zq(m.get_depth_at(x / k, y / k))] for x, y, k in qxy]
    paths = []
    for line in lines:
        pts = m.sample_path([float(v) for v in line])
        d = math.hypot(line[2] - line[0], line[3] - line[1])
        nseg = max(int(d / tol), 1)
        cand = []
        for j in range(nseg + 1):
            x = line[0] + (line[2] - line[0]) * j / nseg
            y = line[1] + (line[3] - line[1]) * j / nseg
            cand.append([zq(x), zq(y), zq(m.get_depth_at(x, y))])
        paths.append({"line": [int(round(v * 1000)) for v in line], "pts": [[zq(p[0]), zq(p[1]), zq(p[2])] for p in pts],
                      "requery": [zq(m.get_depth_at(float(p[0]), float(p[1]))) for p in pts], "cand": cand})
    return {"kind": "sparse", "exact": False, "w": 0, "h": 0, "max": 1, "scale": zq(scale), "tol": zq(tol), "img": [],
            "pts": [[p[0], p[1], zq(p[2])] for p in P], "queries": queries, "paths": paths}


def flat_event(rng):
    from gscrib.heightmaps import FlatHeightMap
    m = FlatHeightMap()
    queries = [[x, y, zq(m.get_depth_at(x, y))] for x, y in ((rng.randint(-50, 50), rng.randint(-50, 50)) for _ in range(10))]
    paths = []
    for _ in range(3):
        line = [rng.randint(-20, 20) for _ in range(4)]
        pts = m.sample_path([float(v) for v in line])
        paths.append({"line": [v * 1000 for v in line], "pts": [[zq(p[0]), zq(p[1]), zq(p[2])] for p in pts], "requery": [], "cand": []})
    return {"kind": "flat", "exact": False, "w": 0, "h": 0, "max": 1, "scale": 1000, "tol": 0, "img": [], "pts": [], "queries": queries, "paths": paths}


def _chunk(job):
    sd, k, per = job
    ev = []
    for i in range(per):
        rng = random.Random(sd * 6007 + k + i)
        ev += raster_event(rng) if (k + i) % 2 == 0 else sparse_event(rng)
    ev.append(flat_event(random.Random(sd * 3 + k)))
    ev += staircase_event(random.Random(sd * 11 + k))
    ev += fine_event(random.Random(sd * 13 + k))
    return ev


class P(flow.Plan):
    pid = "C19"
    clauses = ["C19_Pixel", "C19_RasterPath", "C19_RasterDrop", "C19_Sparse", "C19_SparsePath", "C19_SparseDrop", "C19_Flat"]
    trace_module = "HeightmapTrace"
    assumptions = ["heights in 10^-3 units (float32 normalisation and spline reproduction at knots are far below that)",
                   "raster lines have integer ends; the dropped samples judged are the pixels the line certainly visits",
                   "sparse candidates are re-derived as equidistant points and their heights queried through get_depth_at()"]

    def model_runs(self, tier):
        root = tlc.wrapper("MCPathFilter", "PathFilterImpl", {"cH": "0..3", "cT": "{1, 2}"})
        cfg = "\n".join(["SPECIFICATION Spec", "CONSTANTS", " Heights <- cH", " Tols <- cT", " MaxLen = %d" % (8 if tier == "thorough" else 7),
                         "INVARIANT EndsKept", "INVARIANT InOrder", "INVARIANT DropRule"]) + "\n"
        return [("path-filter", "MCPathFilter", cfg, root, [])]

    def executions(self, tier, sd):
        n = 600 if tier == "thorough" else 120
        jobs = [(sd, k, 6) for k in range(0, n, 6)]
        res = flow.pool_map(_chunk, jobs, 12, per_task=120)
        return [{"meta": {"driver": "random"}, "ev": ev} for ev in res], [{"seed": sd, "k": j[1], "per": 6} for j in jobs]

    def replay(self, payload):
        i = payload["input"]
        return [{"meta": {"driver": "replay"}, "ev": _chunk((i["seed"], i["k"], i["per"]))}], [i]

    def sample(self, t):
        e = t["ev"][0]
        return {"meta": t["meta"], "first_event": {k: (v if k not in ("queries", "paths", "img") else v[:2]) for k, v in e.items()}}

    def brief(self, trace, step):
        e = trace["ev"][step - 1]
        return {k: (v if k not in ("queries", "paths") else v[:3]) for k, v in e.items()}

    def controls(self, base):
        rng = random.Random(77)
        out = []

        def mk(ev, clause, fn):
            e = copy.deepcopy(ev)
            fn(e)
            out.append({"meta": {"driver": "control", "control": {"clause": clause, "step": 1}}, "ev": [e]})
        r = raster_event(rng)[0]
        while not any(len(p["pts"]) >= 3 for p in r["paths"]) or not any(len(p["pts"]) < Pmax(p) for p in r["paths"]):
            r = raster_event(rng)[0]
        s = sparse_event(rng)[0]
        mk(r, "C19_Pixel", lambda e: e["queries"][0].__setitem__(2, e["queries"][0][2] + 7))
        def transpose(e):       # rows and columns exchanged (dimensions too, so that the planted trace stays well formed)
            if e["w"] != e["h"]:
                e["img"] = [list(x) for x in zip(*e["img"])]
                e["w"], e["h"] = e["h"], e["w"]
            else:
                e["queries"][0][2] += 9
        mk(r, "C19_Pixel", transpose)
        mk(r, "C19_RasterPath", lambda e: [p["pts"].pop() for p in e["paths"]])
        mk(r, "C19_RasterDrop", lambda e: e.__setitem__("tol", 0) or [p.__setitem__("pts", [p["pts"][0], p["pts"][-1]]) for p in e["paths"]])
        mk(s, "C19_Sparse", lambda e: e["queries"][0].__setitem__(2, e["queries"][0][2] + 7))
        mk(s, "C19_SparsePath", lambda e: [p["pts"].pop(0) for p in e["paths"]])
        mk(flat_event(rng), "C19_Flat", lambda e: e["paths"][0]["pts"][1].__setitem__(2, 5))
        mk(s, "C19_SparseDrop", lambda e: e.__setitem__("tol", 1) or [p.__setitem__("pts", [p["pts"][0], p["pts"][-1]]) for p in e["paths"]])
        return out


def Pmax(p):
    l = p["line"]
    return max(abs(l[2] - l[0]), abs(l[3] - l[1])) + 1


def run(pid, tier, replay=None):
    return flow.run(P(), tier, replay)
