"""Configuration wiring (beyond the listed properties): TLC enumerates every configuration of ConfigWiring.tla and prints
the wiring the specification expects; the REAL builder is constructed for each -- through keyword arguments and through a
dictionary -- and what can be seen from outside is compared: the classes of the registered writers in order, the address
the direct writer hands to the sender when asked to connect, and the bytes of one emitted line.  Notes, never alarms."""
import io
from unittest import mock

from . import tlc
from .flow import MachineryError

OS_EOL = __import__("os").linesep


def _kwargs(c, stream):
    kw = {"decimal_places": c["dp"], "comment_symbols": c["style"], "line_endings": {"os": "os", "crlf": "\\r\\n"}[c["eol"]],
          "print_lines": {"false": False, "true": True, "string": "yes"}[c["print_lines"]],
          "direct_write": c["direct_write"], "host": "printer.local", "port": 8123 if c["direct_write"] != "serial" else "/dev/ttyV0",
          "baudrate": 57600}
    if c["output"] == "stream":
        kw["output"] = stream
    for ax, lab in zip("xyz", c["labels"]):
        kw[ax + "_axis"] = lab
    return kw


def observe(c, how):
    """Build the real builder for configuration c and return its wiring as the specification words it."""
    import sys
    from gscrib import GCodeBuilder
    from gscrib.writers import ConsoleWriter, FileWriter, SerialWriter, SocketWriter
    stream = io.BytesIO()
    kw = _kwargs(c, stream)
    cap = io.BytesIO()
    saved = sys.stdout
    sys.stdout = type("Std", (), {"buffer": cap, "write": lambda self, s: None, "flush": lambda self: None})()
    try:
        g = GCodeBuilder(**kw) if how == "kwargs" else GCodeBuilder(kw)
    finally:
        sys.stdout = saved
    names, direct = [], None
    i = 0
    while True:
        try:
            w = g.get_writer(i)
        except IndexError:
            break
        i += 1
        if isinstance(w, ConsoleWriter):
            names.append("console")
        elif isinstance(w, FileWriter):
            names.append("file")
        elif isinstance(w, SocketWriter):
            names.append("socket")
            direct = w
        elif isinstance(w, SerialWriter):
            names.append("serial")
            direct = w
        else:
            names.append(type(w).__name__)
    endpoint = "none"
    if direct is not None:
        seen = []

        def fake_connect(self, port=None, baud=None, *a, **k):
            seen.append((port, baud))
            raise RuntimeError("observed")
        with mock.patch("gscrib.printrun.printcore.printcore.connect", fake_connect):
            try:
                direct.connect()
            except Exception:
                pass
        if seen == [("printer.local:8123", 0)]:
            endpoint = "host:port/0"
        elif seen == [("/dev/ttyV0", 57600)]:
            endpoint = "port/baudrate"
        else:
            endpoint = repr(seen)
    # one line through the formatter: number, axis letters, comment, ending -- into a recording writer of our own
    from gscrib.writers import BaseWriter
    got = []

    class _W(BaseWriter):
        def connect(self):
            return self

        def disconnect(self, wait=True):
            pass

        def write(self, statement):
            got.append(bytes(statement))
    while True:
        try:
            g.remove_writer(g.get_writer(0))
        except IndexError:
            break
    g.add_writer(_W())
    g.move(x=1.23456, y=2, z=0.5, comment="c")
    line = b"".join(got).decode("utf-8")
    eol = "crlf" if line.endswith("\r\n") and OS_EOL != "\r\n" else ("os" if line.endswith(OS_EOL) else "other")
    body = line.rstrip("\r\n")
    code, _, comment = body.partition(" " + c["style"]) if c["style"] in body else (body, "", "")
    style = c["style"] if (c["style"] == ";" and body.endswith("; c")) or (c["style"] == "(" and body.endswith("( c )") or body.endswith("(c)")) else "other:" + body
    words = code.split()
    labels = "".join(w[0] for w in words[1:4])
    first = words[1][1:] if len(words) > 1 else ""
    dp = len(first.split(".")[1]) if "." in first else 0
    return {"writers": names, "dp": dp, "style": style, "eol": eol, "labels": labels, "endpoint": endpoint, "line": line}


def run():
    r = tlc.model_check("ConfigWiring", "SPECIFICATION Spec\nINVARIANT Inv\n", workers=1, coverage=False, tag="config")
    if r.errors or r.violated:
        raise MachineryError("ConfigWiring: %s %s\n%s" % (r.errors[:2], r.violated, r.stdout[-1500:]))
    exp = [(t[1], t[2]) for t in r.tuples if t and t[0] == "W"]
    if len(exp) != 2 * 3 * 3 * 2 * 2 * 2 * 2:
        raise MachineryError("ConfigWiring printed %d configurations" % len(exp))
    def compare(pairs):
        mism = []
        for c, w in pairs:
            for how in ("kwargs", "dict"):
                o = observe(c, how)
                want = {"writers": list(w["writers"]), "dp": w["dp"], "style": w["style"], "eol": w["eol"], "labels": w["labels"],
                        "endpoint": w["endpoint"]}
                got = {k: o[k] for k in want}
                if got != want:
                    mism.append({"config": c, "how": how, "expected": want, "observed": got, "line": o["line"]})
        return mism
    mism = compare(exp)
    # the binding is live: altered expectations (a writer too many, another precision, the other direct mode) must be reported
    c0, w0 = next((c, w) for c, w in exp if c["direct_write"] == "socket" and c["output"] == "stream")
    planted = [(c0, dict(w0, writers=list(w0["writers"])[::-1])), (c0, dict(w0, dp=w0["dp"] + 1)), (c0, dict(w0, endpoint="port/baudrate"))]
    if len(compare(planted)) != 2 * len(planted):
        raise MachineryError("ConfigWiring control: altered expectations were not all noticed")
    return {"configurations": len(exp), "constructions": 2 * len(exp), "mismatches": len(mism), "first_mismatches": mism[:3],
            "model_states": r.distinct, "planted_expectations_noticed": "%d of %d" % (len(planted), len(planted))}
