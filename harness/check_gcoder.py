"""The bundled analyser printrun.gcoder as a second implementation of Machine.tla (beyond the listed properties).
Recorded builder histories carry the real analyser's state after every event; GcoderTrace.tla compares it with the model
GcoderImpl (impl level) and with the reference interpreter (contract).  Notes only."""
import os
import time

from . import tlc
from .common import MachineryError, workdir, write_json


def model_runs():
    cfg = "SPECIFICATION Spec\nCONSTANTS\n Vs = {0, 1, 2}\n MaxLen = 4\nCHECK_DEADLOCK FALSE\nINVARIANT %s\nINVARIANT ModeAgrees\n"
    return [("gcoder-vs-machine", "GcoderImpl", cfg % "Agrees", None, []),
            ("gcoder-vs-machine-strict", "GcoderImpl", cfg % "AgreesStrict", None, ["AgreesStrict"])]


def validate(traces, shards=8):
    sel = [t for t in traces if t["meta"].get("exact") and t["ev"] and "gc" in t["ev"][0]]
    if not sel:
        return {"traces": 0}
    files = []
    k = max(1, min(shards, len(sel)))
    for i in range(k):
        path = os.path.join(workdir(), "gcoder_%d_%d.json" % (int(time.time() * 1000) % 100000, i))
        # only what the specification reads
        write_json(path, [{"meta": {"exact": True}, "ev": [{"call": e["call"], "lines": e["lines"], "gc": e["gc"]} for e in t["ev"]]}
                          for t in sel[i::k]])
        files.append(path)
    cfg = "SPECIFICATION TSpec\nCONSTANTS\n Vs = {}\n MaxLen = 0\n"
    res = tlc.validate_sharded("GcoderTrace", cfg, files)
    impl = agree = tainted = events = 0
    xs, fs = [], []
    for r in res:
        if r.errors or r.rc != 0:
            raise MachineryError("GcoderTrace failed: %s\n%s" % (r.errors[:2], r.stdout[-1500:]))
        for t in r.tuples:
            if not t:
                continue
            if t[0] == "D":
                events += t[2]
                impl += t[3]["impl"]
                agree += t[3]["agree"]
                tainted += t[3]["tainted"]
            elif t[0] == "X":
                xs.append(t[3])
            elif t[0] == "F":
                fs.append(t[3])
    return {"traces": len(sel), "events": events, "events_compared_with_GcoderImpl": impl, "impl_mismatches": len(xs),
            "impl_mismatch_calls": sorted(set(xs))[:8], "events_where_Machine_knows_a_position": agree,
            "disagreements_with_Machine": len(fs), "disagreement_calls": sorted(set(fs))[:8],
            "events_under_named_deviation_HomeZeroIsHomeAll": tainted}
