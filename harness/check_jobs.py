"""Job life cycle of the bundled sender (beyond the listed properties): executions of the real printcore with
startprint / pause / resume / cancelprint / ';@pause' / a second startprint, validated at implementation level against
SenderJobsImpl (SenderJobsImplTrace: firmware and the inner steps of resume() inferred by TLC), with the model's
invariants evaluated on the matched behaviours.  Used by check_c15 (post step); drift and invariant notes never alarm."""
import os
import random

from . import flow, tlc
from .common import workdir, write_json
from .serial_rec import run_life

NL = 4


def job(j, hp=(), rel=False):
    """Absolute jobs: 'G1 X<id>'.  Relative jobs (after a G91 preamble): every line moves one unit, the id rides on F."""
    fmt = "G1 X1 F%d" if rel else "G1 X%d"
    return [";@pause" if (q + 1) in hp and j == 1 else fmt % ((1000 if rel else 0) + 10 * j + q + 1) for q in range(NL)]


def scenario(rng):
    hp = rng.choice([(), (), (2,), (3,), (1,), (4,)])
    kind = rng.choice(["cancel", "pause-cancel", "two", "pause-resume", "cancel", "late-cancel"])
    acts = []
    if hp:
        acts.append({"when": "paused", "do": rng.choice(["resume", "resume", "cancel"])})
    if kind == "cancel":
        acts.append({"when": "ntx", "n": rng.randint(1, 5), "do": "cancel"})
    elif kind == "late-cancel":
        acts.append({"when": "ntx", "n": rng.randint(5, 9), "do": "cancel"})
    elif kind == "pause-cancel":
        acts += [{"when": "ntx", "n": rng.randint(1, 4), "do": "pause"}, {"when": "paused", "do": "cancel"}]
    elif kind == "pause-resume":
        acts += [{"when": "ntx", "n": rng.randint(1, 4), "do": "pause"}, {"when": "paused", "do": "resume"}]
    acts.append({"when": "idle", "do": "start"})
    if rng.random() < 0.3:
        acts.append({"when": "ntx", "n": rng.randint(8, 16), "do": rng.choice(["pause", "cancel"])})
        if acts[-1]["do"] == "pause":
            acts.append({"when": "paused", "do": "resume"})
    corrupt = sorted(rng.sample(range(1, 14), rng.choice([0, 0, 1, 1, 2])))
    holds = {}
    for k in range(20):
        if rng.random() < 0.2:
            holds[k] = rng.randint(0, 10)
    inst = rng.random() < 0.25            # zero latency: replies handled before write() returns
    return {"hp": list(hp), "actions": acts, "corrupt": corrupt, "holds": {} if inst else holds, "rel": rng.random() < 0.5, "instant": inst}


# finding F19: relative job, one corrupted line, pause after the resend -> the restore move of resume() names a position one
# unit beyond where the firmware is
F19_WITNESSES = [
    {"hp": [], "actions": [{"when": "ntx", "n": 5, "do": "pause"}, {"when": "paused", "do": "resume"}, {"when": "idle", "do": "start"}],
     "corrupt": [2], "holds": {}, "rel": True},
    {"hp": [], "actions": [{"when": "ntx", "n": 4, "do": "pause"}, {"when": "paused", "do": "resume"}, {"when": "idle", "do": "start"}],
     "corrupt": [3], "holds": {}, "rel": True},
]


def _run(sc):
    rel = bool(sc.get("rel"))
    t = run_life([job(1, sc["hp"], rel), job(2, (), rel)], sc["actions"], corrupt=sc["corrupt"],
                 holds={int(k): v for k, v in sc["holds"].items()}, preamble=("G91",) if rel else (), instant=bool(sc.get("instant")))
    t["meta"]["hp"] = sc["hp"]
    t["meta"]["rel"] = rel
    return t


def project(trace):
    """A recorded execution in SenderJobsImpl's vocabulary."""
    ids = {}
    for j, lines in enumerate(trace["jobs"], start=1):
        for q, text in enumerate(lines):
            if not text.startswith(";@"):
                ids[text] = 10 * j + q + 1
    ev, npri = [], 0
    for e in trace["ev"]:
        t = bytes(e["text"]).decode("ascii", "replace").strip()
        z = {"k": e["k"], "n": 0, "cmd": 0, "bad": False, "kind": "", "x": -1}
        if e["k"] == "tx":
            if t.startswith("N"):
                try:
                    body = t.rsplit("*", 1)[0]
                    head, cmd = body.split(" ", 1)
                    z.update(n=int(head[1:]), cmd=0 if cmd.startswith("M110") else ids[cmd], bad=bool(e["bad"]))
                except (ValueError, KeyError):
                    return None
            else:
                npri += 1
                z.update(n=-2, cmd=100 + npri)
                if npri == 2 and t.startswith("G1 X"):          # resume(): "G1 X<pauseX> Y<pauseY>" -> command 200 + x
                    try:
                        x = int(round(float(t.split()[1][1:])))
                    except ValueError:
                        return None
                    z.update(x=x, cmd=200 + x if trace["meta"].get("rel") and 0 <= x < 99 else 299)
        elif e["k"] == "rel":
            if t == "ok":
                z.update(kind="ok")
            elif t.startswith("Resend:"):
                z.update(kind="resend", n=int(t.split(":")[1]))
            else:
                return None
        elif e["k"] == "resume":
            npri = 0
        ev.append(z)
    return {"ev": ev, "rel": bool(trace["meta"].get("rel"))}


def validate(traces):
    """Returns (accepted, total, rejected indices, invariant notes)."""
    groups = {}
    for i, t in enumerate(traces):
        p = project(t)
        if p is not None:
            groups.setdefault((tuple(t["meta"]["hp"]), bool(t["meta"].get("rel"))), []).append((i, p))
    accepted, total, rejected, inv = 0, 0, [], []
    for (hp, rel), items in sorted(groups.items()):
        path = os.path.join(workdir(), "jobsconf_%s_%d.json" % ("_".join(map(str, hp or ("none",))), rel))
        write_json(path, [p for _, p in items])
        cfg = ("SPECIFICATION TSpec\nCONSTANTS\n NLines = %d\n NJobs = 2\n MaxCorrupt = 99\n MaxPauses = 99\n MaxCancels = 99\n"
               " NRestore = %d\n HostPauseAt = {%s}\n PauseClearsSentlines = FALSE\n ResendAnalysed = TRUE\n QuietPause = FALSE\n"
               "INVARIANT T_InOrder\nINVARIANT T_JobsInOrder\nINVARIANT T_Complete\nINVARIANT T_Restore\nINVARIANT T_NeverDies\n"
               "INVARIANT T_ResumeReturns\n"
               % (NL, 7 if rel else 5, ", ".join(map(str, hp))))
        r = tlc.validate("SenderJobsImplTrace", cfg, path, tag="jobsconf")
        if r.errors:
            raise flow.MachineryError("SenderJobsImplTrace failed: %s\n%s" % (r.errors[:2], r.stdout[-1500:]))
        ok = {t[1] for t in r.tuples if t and t[0] == "A"}
        total += len(items)
        accepted += len(ok)
        rejected += [items[k - 1][0] for k in range(1, len(items) + 1) if k not in ok]
        inv += sorted({(items[t[1] - 1][0], t[3]) for t in r.tuples if t and t[0] == "I"})
    return accepted, total, rejected, inv


def run_scenarios(seed, n, par=6):
    rng = random.Random(seed * 7919 + 5)
    scs = [scenario(rng) for _ in range(n)]
    traces = flow.pool_map(_run, scs, par=par)
    out = []
    for sc, t in zip(scs, traces):
        if isinstance(t, dict):
            t["meta"]["scenario"] = sc
            out.append(t)
    return out, len(scs) - len(out)


def validate_callbacks(traces):
    """CallbacksTrace: the PrinterEventHandler contract on the same executions. Returns (clause counts, failures)."""
    path = os.path.join(workdir(), "callbacks.json")
    write_json(path, [{"ev": [{"k": e["k"], "name": e["name"], "text": e["text"], "flag": e["flag"], "idx": e["idx"], "bad": e["bad"]}
                              for e in t["evcb"]]} for t in traces])
    r = tlc.validate("CallbacksTrace", "SPECIFICATION Spec\n", path, tag="callbacks")
    if r.errors or r.rc != 0:
        raise flow.MachineryError("CallbacksTrace failed: %s\n%s" % (r.errors[:2], r.stdout[-1500:]))
    counts, fails = {}, []
    for t in r.tuples:
        if t and t[0] == "D":
            for c, n in t[3].items():
                counts[c] = counts.get(c, 0) + n
        elif t and t[0] == "F":
            fails.append((t[1] - 1, t[2], t[3]))
    return counts, fails
