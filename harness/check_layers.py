"""The layer table of the bundled analyser (beyond the listed properties; C15 rests on it): gcoder.GCode(job) is built for
jobs shaped like sliced prints, the attributes the layering reads are taken from the real parsed Line objects, and
GcoderLayersTrace asks (contract) whether queue index i fetches line i and the layers are the program cut in order, and
(impl level) whether the table is exactly the one the specification GcoderLayers computes.  Notes, never alarms."""
import os
import random
import time

from . import tlc
from .common import workdir, write_json
from .flow import MachineryError

ZU = 1000          # heights in 1/1000 units; generated on a binary-friendly grid so that relative sums stay exact


def sliced_job(rng, n):
    """Layers at increasing heights, extruding moves, Z-hops back to the same height, relative-mode stretches, G92 Z, lines
    without a command, a first line that already extrudes at a height."""
    out, z, e, i = [], 0.0, 0.0, 0
    rel = False
    if rng.random() < 0.25:
        e += 1.0
        out.append("G1 X1 Y1 Z0.25 E%.3f" % e)          # extrudes and names a height at once: the empty first layer
        z = 0.25
    while len(out) < n:
        kind = rng.choice(["layer", "extrude", "extrude", "extrude", "hop", "travel", "misc", "mode", "g92", "retract", "zext"])
        i += 1
        if kind == "layer":
            dz = rng.choice([0.25, 0.5])
            z += dz
            out.append("G1 Z%.2f F600" % (dz if rel else z))
        elif kind == "extrude":
            e += rng.choice([0.5, 1.0, 1.5])
            out.append("G1 X%d Y%d E%.3f" % (i, rng.randint(0, 50), (e if not rel else rng.choice([0.5, 1.0]))))
        elif kind == "zext":
            dz = rng.choice([0.25, 0.0])
            z += dz
            e += 1.0
            out.append("G1 X%d Z%.2f E%.3f" % (i, (dz if rel else z), (e if not rel else 1.0)))
        elif kind == "hop":
            if rel:
                out += ["G1 Z0.5", "G0 X1 Y1", "G1 Z-0.5"]
            else:
                out += ["G1 Z%.2f" % (z + 0.5), "G0 X%d Y%d" % (i, rng.randint(51, 99)), "G1 Z%.2f" % z]
        elif kind == "travel":
            out.append("G0 X%d Y%d" % (i, rng.randint(100, 150)))
        elif kind == "mode":
            rel = not rel
            out.append("G91" if rel else "G90")
            if not rel:
                out.append("G92 E%.3f" % e)
        elif kind == "g92":
            z = rng.choice([0.0, 0.25, 1.0])
            out.append("G92 Z%.2f" % z)
        elif kind == "retract":
            out.append("G1 E%.3f" % ((e - 1.0) if not rel else -1.0))
        else:
            out.append(rng.choice(["M106 S%d", "M104 S%d", "; layer note %d", "(note %d)"]) % (100 + i))
    out = out[:n]
    if rng.random() < 0.6:
        out += ["G90", "G1 Z%.2f" % (z + 5.0), "M84", "M107"][:rng.randint(1, 4)]
    return out


def record(job):
    """gcoder.GCode(job) as printcore.startprint() receives it -> what GcoderLayersTrace reads."""
    from gscrib.printrun import gcoder
    gc = gcoder.GCode(list(job))
    pos = {id(ln): k + 1 for k, ln in enumerate(gc.lines)}
    lines = []
    for ln in gc.lines:
        move = bool(ln.is_move)
        z = getattr(ln, "z", None)
        ext = move and getattr(ln, "e", None) is not None and bool(getattr(ln, "extruding", False)) and \
            (getattr(ln, "x", None) is not None or getattr(ln, "y", None) is not None)
        lines.append({"cmd": bool(ln.command), "move": move, "g92": ln.command == "G92", "hasz": z is not None,
                      "z": int(round(z * ZU)) if z is not None else 0, "rel": bool(getattr(ln, "relative", False)) if move else False,
                      "ext": bool(ext)})
    layers = [[pos.get(id(ln), 0) for ln in layer] for layer in gc.all_layers]
    if layers and not layers[-1]:
        layers = layers[:-1]          # the empty layer that later append() calls would fill
    return {"lines": lines, "layers": layers, "lidx": [int(x) for x in gc.layer_idxs], "pidx": [int(x) for x in gc.line_idxs],
            "raw": list(job)}


def validate(records, tag="layers"):
    if not records:
        return {"jobs": 0}
    path = os.path.join(workdir(), "%s_%d.json" % (tag, int(time.time() * 1000) % 100000))
    write_json(path, [{k: r[k] for k in ("lines", "layers", "lidx", "pidx")} for r in records])
    cfg = "SPECIFICATION TSpec\nCONSTANTS\n MaxLines = 0\n Zs = {}\nCHECK_DEADLOCK FALSE\n"
    r = tlc.validate("GcoderLayersTrace", cfg, path, tag=tag)
    if r.errors:
        raise MachineryError("GcoderLayersTrace failed: %s\n%s" % (r.errors[:2], r.stdout[-1500:]))
    done = [t for t in r.tuples if t and t[0] == "D"]
    if len(done) != len(records):
        raise MachineryError("GcoderLayersTrace judged %d of %d jobs" % (len(done), len(records)))
    fs = sorted({(t[1], t[2]) for t in r.tuples if t and t[0] == "F"})
    xs = sorted({(t[1], t[2]) for t in r.tuples if t and t[0] == "X"})
    return {"jobs": len(records), "lines": sum(t[2] for t in done), "layers": sum(t[3] for t in done),
            "contract_failures": [list(x) for x in fs[:5]], "n_contract_failures": len(fs),
            "impl_mismatches": [list(x) for x in xs[:5]], "n_impl_mismatches": len(xs)}


def run(seed, n):
    recs = []
    for i in range(n):
        rng = random.Random(seed * 9176 + i)
        recs.append(record(sliced_job(rng, rng.randint(4, 40))))
    out = validate(recs)
    # negative controls: two entries of the table swapped / a line filed under the neighbouring layer
    ctl = []
    for r in recs:
        if len(r["lidx"]) >= 4 and len(ctl) < 2:
            c = {k: ([list(x) for x in v] if k == "layers" else list(v)) for k, v in r.items() if k != "raw"}
            if len(ctl) == 0:
                c["pidx"][1], c["pidx"][2] = c["pidx"][2] + 0, c["pidx"][1] + 0
                if c["pidx"][1] == c["pidx"][2]:
                    c["pidx"][1] += 1
            else:
                c["lidx"][-1] += 1
            c["raw"] = r["raw"]
            ctl.append(c)
    if ctl:
        cv = validate(ctl, tag="layersctl")
        if cv["n_contract_failures"] < len(ctl):
            raise MachineryError("GcoderLayersTrace accepted a corrupted table: %s" % cv)
        out["corrupted_tables_rejected"] = "%d of %d" % (len(ctl), len(ctl))
    out["first_bad_job"] = None
    bad = out["contract_failures"] or out["impl_mismatches"]
    if bad:
        out["first_bad_job"] = recs[bad[0][0] - 1]["raw"]
    return out
