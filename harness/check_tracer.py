"""C10, C11, C12 -- interpolated paths: curve and end point, mode independence, resolution."""
import copy
import random

from . import flow, tlc, tracer_rec

ALL = {
    "C10": ["C10_Valid", "C10_End", "C10_EndRel", "C10_Start", "C10_Radius", "C10_Sweep", "C10_Direction", "C10_Linear",
            "C10_Controls", "C10_Points"],
    "C11": ["C11_Same"],
    "C12": ["C12_Long", "C12_Short", "C12_Count", "C12_Halving", "C12_Chord", "C12_Units"],
}


def _record_chunk(job):
    sd, k, per, shapes = job
    ev, reqs = [], []
    for i in range(per):
        rng = random.Random(sd * 15485863 + k + i)
        req = tracer_rec.gen(rng, rng.choice(shapes) if shapes else None)
        reqs.append(req)
        ev.append(tracer_rec.record(req))
    if shapes is None and k == 0:        # C10 / C11: closed curves in short decimals, both directions
        for req in tracer_rec.closed_curves(random.Random(sd * 17 + 3)) + tracer_rec.small_loops(random.Random(sd * 23 + 5)) \
                + tracer_rec.off_circle(random.Random(sd * 29 + 7)):
            reqs.append(req)
            ev.append(tracer_rec.record(req))
    if shapes:          # C12: the unit systems, and one path thousands of resolutions long per chunk
        ev.append(tracer_rec.units_event(random.Random(sd * 7 + k)))
        if (k // per) % 4 == 0:
            req = tracer_rec.gen_long(random.Random(sd * 13 + k))
            reqs.append(req)
            ev.append(tracer_rec.record(req))
        if (k // per) % 4 == 2:
            req = tracer_rec.gen_far(random.Random(sd * 19 + k))
            reqs.append(req)
            ev.append(tracer_rec.record(req))
    return ev, reqs


class P(flow.Plan):
    trace_module = "TracerTrace"
    heap = "4g"
    shards = 14
    assumptions = ["decimal_places=2, |coordinates| <= 100 mm so that squared distances fit TLC's integers",
                   "vertices are reconstructed by Machine!ExecLine from the emitted G1 lines; angles by a 16-step CORDIC (1e-5 rad)",
                   "angular clauses skip vertices closer than two resolutions to the centre"]

    def __init__(self, pid):
        self.pid = pid
        self.clauses = ALL[pid]

    def model_runs(self, tier):
        if self.pid != "C12":
            return [("shapes", "ShapesModel", "SPECIFICATION Spec\nINVARIANT SweepRule\nINVARIANT CordicAccurate\n", None, [])]
        cfgs = [("filter", "FilterImpl", "SPECIFICATION Spec\nCONSTANTS\n MaxLen = %d\nVIEW view\nINVARIANT KeptOK\nINVARIANT LastKept\n" % (40 if tier == "thorough" else 24), None, [])]
        return cfgs

    def executions(self, tier, sd):
        n = {"C10": 260, "C11": 200, "C12": 200}[self.pid] if tier != "thorough" else 1500
        per = 10
        shapes = {"C12": ["arc", "arc_radius", "circle", "arc", "helix", "thread"], "C11": None, "C10": None}[self.pid]
        jobs = [(sd, k, per, shapes) for k in range(0, n, per)]
        res = flow.pool_map(_record_chunk, jobs, 14, per_task=120)
        traces = [{"meta": {"driver": "random", "U": tracer_rec.U}, "ev": ev} for ev, _ in res]
        inputs = [{"reqs": reqs} for _, reqs in res]
        return traces, inputs

    def replay(self, payload):
        reqs = payload["input"]["reqs"]
        return [{"meta": {"driver": "replay", "U": tracer_rec.U}, "ev": [tracer_rec.record(r) for r in reqs]}], [payload["input"]]

    def sample(self, t):
        return {"meta": t["meta"], "ev": [{k: (v if not k.startswith("lines") else "%d lines" % len(v)) for k, v in e.items()} for e in t["ev"][:3]]}

    def brief(self, trace, step):
        e = trace["ev"][step - 1]
        return {k: (v if not k.startswith("lines") else "%d lines" % len(v)) for k, v in e.items()}

    def controls(self, base):
        rng = random.Random(11)
        out = []

        def mk(shape, clause, fn):
            req = tracer_rec.gen(rng, shape, allow_tiny=False)
            e = tracer_rec.record(req)
            fn(e)
            out.append({"meta": {"driver": "control", "U": tracer_rec.U, "control": {"clause": clause, "step": 1}}, "ev": [e]})

        def bump(e, key, i, letter, by):
            for w in e[key][i]["ws"]:
                if w["l"] == letter:
                    w["v"] += by
        if self.pid == "C10":
            mk("arc", "C10_End", lambda e: bump(e, "linesA", -1, "X", 5))
            mk("arc", "C10_Radius", lambda e: bump(e, "linesA", len(e["linesA"]) // 2, "X", 40))
            mk("arc", "C10_Sweep", lambda e: e.__setitem__("ccw", not e["ccw"]))
            mk("arc", "C10_Direction", lambda e: e["linesA"].__setitem__(slice(2, 6), list(reversed(e["linesA"][2:6]))))
            mk("helix", "C10_Linear", lambda e: [bump(e, "linesA", i, "Z", 60) for i in range(len(e["linesA"]) // 3, len(e["linesA"]) // 2)])
            mk("spline", "C10_Controls", lambda e: e["controls"].__setitem__(0, [e["controls"][0][0] + 900, e["controls"][0][1], e["controls"][0][2]]))
            mk("polyline", "C10_Points", lambda e: e["linesA"].pop())
            mk("circle", "C10_Valid", lambda e: e.__setitem__("outR", "ValueError"))
            mk("arc", "C10_Start", lambda e: e["linesA"].__delitem__(slice(0, 3)))
            mk("arc", "C10_EndRel", lambda e: bump(e, "linesR", -1, "X", 900))
        if self.pid == "C11":
            mk("arc", "C11_Same", lambda e: bump(e, "linesR", 1, "X", 9))
            mk("spline", "C11_Same", lambda e: e["linesR"].pop(1))
        if self.pid == "C12":
            mk("arc", "C12_Long", lambda e: e["linesA"].__delitem__(slice(3, 6)))
            mk("circle", "C12_Short", lambda e: e["linesA"].insert(4, copy.deepcopy(e["linesA"][3])) or bump(e, "linesA", 4, "X", 3))
            mk("circle", "C12_Count", lambda e: e.__setitem__("len", e["len"] * 3))
            mk("arc", "C12_Halving", lambda e: e.__setitem__("linesH", e["linesH"][::3]))
            ue = tracer_rec.units_event(rng)
            ue["len"] = ue["r"]
            out.append({"meta": {"driver": "control", "U": tracer_rec.U, "control": {"clause": "C12_Units", "step": 1}}, "ev": [ue]})
            mk("circle", "C12_Chord", lambda e: bump(e, "linesA", len(e["linesA"]) // 2, "X", 40))
        return out


def run(pid, tier, replay=None):
    return flow.run(P(pid), tier, replay)
