"""./check <id> --tier quick|thorough [--replay path]"""
import argparse
import os
import sys
import traceback

from .common import EXIT_MACHINERY, MachineryError, say

BUILDER = {"C01", "C02", "C03", "C05", "C06", "C07", "C20"}


def main():
    ap = argparse.ArgumentParser()
    ap.add_argument("pid")
    ap.add_argument("--tier", default=os.environ.get("VERIF_TIER", "quick"), choices=["quick", "thorough"])
    ap.add_argument("--replay", default=None)
    a = ap.parse_args()
    sys.path.insert(0, os.environ.get("GSCRIB_REPO", "/repo"))
    try:
        if a.pid in BUILDER:
            from . import builder_check
            rc = builder_check.run(a.pid, a.tier, a.replay)
        else:
            mod = __import__("harness.check_%s" % a.pid.lower(), fromlist=["run"])
            rc = mod.run(a.pid, a.tier, a.replay)
    except MachineryError as e:
        say("MACHINERY-ERROR: %s" % e)
        rc = EXIT_MACHINERY
    except Exception:
        traceback.print_exc()
        rc = EXIT_MACHINERY
    from .common import cleanup
    cleanup()
    sys.stdout.flush()
    sys.stderr.flush()
    os._exit(rc)        # stray daemon threads of the thread harness must not keep the check alive


main()
