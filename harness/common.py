"""Shared paths, seeds, scratch directories, evidence and verdict plumbing.

Nothing in this package decides a property: Python records executions of the
real code, replays TLC behaviours into it, starts TLC and copies TLC's verdicts
into the evidence file.
"""
import atexit
import json
import os
import shutil
import sys
import time

VERIF = os.path.dirname(os.path.dirname(os.path.abspath(__file__)))
SPECS = os.path.join(VERIF, "specs")
EVID = os.environ.get("VERIF_EVIDENCE_DIR") or os.path.join(VERIF, "evidence")
VIOL = os.path.join(EVID, "violations")
REPO = os.environ.get("GSCRIB_REPO", "/repo")
WORKROOT = os.path.join(VERIF, ".work")

EXIT_OK, EXIT_VIOLATION, EXIT_MACHINERY = 0, 1, 2


def seed():
    try:
        return int(os.environ.get("VERIF_SEED", "20261004"))
    except ValueError:
        return 20261004


_workdir = None


def workdir():
    """Per-invocation scratch directory under /verif/.work, removed at exit."""
    global _workdir
    if _workdir is None:
        os.makedirs(WORKROOT, exist_ok=True)
        _workdir = os.path.join(WORKROOT, "w%d_%d" % (os.getpid(), int(time.time() * 1000) % 100000))
        os.makedirs(_workdir, exist_ok=True)
        if not os.environ.get("VERIF_KEEP_WORK"):
            atexit.register(shutil.rmtree, _workdir, True)
    return _workdir


def cleanup():
    if _workdir is not None and not os.environ.get("VERIF_KEEP_WORK"):
        shutil.rmtree(_workdir, True)


def known_findings():
    with open(os.path.join(VERIF, "known_findings.json")) as fh:
        return json.load(fh)


class MachineryError(Exception):
    pass


def write_json(path, obj):
    os.makedirs(os.path.dirname(path), exist_ok=True)
    tmp = path + ".tmp%d" % os.getpid()
    with open(tmp, "w") as fh:
        json.dump(obj, fh, separators=(",", ":"))
    os.replace(tmp, path)


def write_evidence(pid, tier, coverage, assumptions, wall_s, violations, extra=None):
    ev = {
        "property_id": pid,
        "tier": tier,
        "seed": seed(),
        "level": "model_checking",
        "coverage": coverage,
        "assumptions": assumptions,
        "wall_s": round(wall_s, 2),
        "violations": violations,
    }
    if extra:
        ev.update(extra)
    os.makedirs(EVID, exist_ok=True)
    path = os.path.join(EVID, "%s.json" % pid)
    tmp = path + ".tmp%d" % os.getpid()
    with open(tmp, "w") as fh:
        json.dump(ev, fh, indent=1, sort_keys=True)
    os.replace(tmp, path)
    return path


def save_violation(pid, name, payload):
    os.makedirs(VIOL, exist_ok=True)
    path = os.path.join(VIOL, "%s_%s.json" % (pid, name))
    with open(path, "w") as fh:
        json.dump(payload, fh, indent=1)
    return path


def say(*a):
    print(*a, flush=True)


def die_machinery(msg):
    say("MACHINERY-ERROR:", msg)
    sys.exit(EXIT_MACHINERY)


class _Sink(__import__("logging").Handler):
    """Formats every record (so that the arguments of log calls are really evaluated) and drops it."""

    def emit(self, record):
        try:
            self.format(record)
        except Exception:
            pass


def set_logging(verbose):
    """The process-wide logging mode of an execution (added after seed C18g: a debug trace that consumed an iterator).
    verbose: everything down to DEBUG is enabled and formatted, as under logging.basicConfig(level=logging.DEBUG);
    otherwise logging is disabled, the library's default silence."""
    import logging
    root = logging.getLogger()
    if verbose:
        logging.disable(logging.NOTSET)
        root.handlers = [_Sink()]
        root.setLevel(logging.DEBUG)
    else:
        logging.disable(logging.CRITICAL)
