"""python -m harness.debug <profile> <n> [clause]  -- show failing events of random traces."""
import sys
from . import builder_drv, builder_check
from .common import seed

def brief(e):
    lines = [" ".join("%s%s" % (w['l'], w['v']) for w in ln['ws']) for ln in e['lines']]
    a = {k: v for k, v in e['a'].items() if (isinstance(v, dict) and v.get('k') != 'none') or (isinstance(v, str) and v) or (k == 'ax' and any(q['k'] != 'none' for q in v))}
    return e['call'], e['out'], a, lines

def main():
    prof, n = sys.argv[1], int(sys.argv[2])
    want = sys.argv[3] if len(sys.argv) > 3 else None
    sd = seed()
    trs = []
    for i in range(n):
        exact = (i % 3) != 2
        dp = None if exact else [2, 3, 4][i % 3]
        trs.append(builder_drv.random_trace(sd * 1000 + i, profile=prof, exact=exact, dp=dp)[0])
    fails, done, _ = builder_check.validate_traces(trs)
    seen = set()
    from collections import Counter
    print(Counter(f[2] for f in fails))
    for f in fails:
        if want and f[2] != want: continue
        if (f[2]) in seen and not want: continue
        seen.add(f[2])
        tr = trs[f[0]]; e = tr['ev'][f[1]-1]
        pe = tr['ev'][f[1]-2]['rep'] if f[1] > 1 else tr['init']
        print('----', f, tr['meta'])
        print(brief(e))
        sh = lambda r: dict(pos=[q['v'] if q['k']=='n' else q['k'] for q in r['pos']], rel=r['rel'], tool=r['tool'], cool=r['coolact'], feed=r['feed']['v'], power=r['power']['v'], halt=r['halt'], bounds={k:(v['lo'],v['hi']) for k,v in r['bounds'].items() if v['set']})
        print(' prev', sh(pe)); print(' rep ', sh(e['rep']))
        if len(seen) > 6: break
main()
