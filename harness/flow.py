"""The common shape of a check (everything after the builder family):

  model check the implementation-shaped model (exhaustive)      -> states
  TLC behaviours of that model replayed on the real code        -> traces
  seeded random / enumerated drivers on the real code           -> traces
  negative controls planted in copies of real traces            -> traces
  TLC trace validation against the contract                     -> verdicts

Only the last step can produce a VIOLATION. A `Plan` describes one property.
"""
import json
import os
import time

from . import tlc
from .common import (EXIT_OK, EXIT_VIOLATION, MachineryError, known_findings, save_violation, say, seed,
                     workdir, write_evidence, write_json)


def pool_map(fn, items, par, per_task=40):
    """Run thread-harness scenarios in worker processes; a worker that does not come back is killed and the run
    is a machinery error (never a verdict)."""
    import concurrent.futures as cf
    import multiprocessing as mp
    items = list(items)
    if not items:
        return []
    ctx = mp.get_context("fork")
    ex = cf.ProcessPoolExecutor(max_workers=min(par, len(items)), mp_context=ctx)
    try:
        futs = [ex.submit(fn, it) for it in items]
        budget = per_task * (1 + len(items) // max(1, par)) + 30
        done, pending = cf.wait(futs, timeout=budget)
        if pending:
            raise MachineryError("%d harness scenarios did not finish within %ds" % (len(pending), budget))
        return [f.result() for f in futs]
    finally:
        procs = list(getattr(ex, "_processes", {}).values())
        ex.shutdown(wait=False, cancel_futures=True)
        for p in procs:
            try:
                p.kill()
            except Exception:
                pass


class Plan:
    pid = ""
    clauses = []            # clause names of this property (prefix of verdict lines)
    trace_module = ""       # XTrace module name
    trace_cfg = "SPECIFICATION Spec\n"
    assumptions = []
    shards = 12
    heap = "3g"

    def model_runs(self, tier):
        """-> list of (name, module, cfg_text, root_text or None, expect_violated(list))"""
        return []

    def behaviours(self, tier, sd):
        """-> (traces, inputs, extra coverage dict). Replay of TLC behaviours on the code."""
        return [], [], {}

    def executions(self, tier, sd):
        """-> (traces, inputs). Seeded / enumerated drivers on the real code."""
        return [], []

    def post(self, traces, inputs):
        """-> extra coverage computed over all real traces (e.g. Impl-level trace validation)."""
        return {}

    def extra(self, tier, sd):
        """-> (violations, coverage): clauses of this property decided with another trace module.
        violations: list of {"clause", "step", "meta", "input", "failing_event"}."""
        return [], {}

    def controls(self, base_traces):
        """-> list of traces with meta.control = {clause, step} (step may be 0 = any)."""
        return []

    def replay(self, payload):
        """-> (traces, inputs) re-executed from a violation file."""
        raise NotImplementedError

    def brief(self, trace, step):
        ev = trace["ev"][step - 1] if step and step <= len(trace["ev"]) else {}
        return json.loads(json.dumps(ev, default=str)[:100000]) if len(json.dumps(ev, default=str)) < 2000 else {"call": ev.get("call")}

    def sample(self, trace):
        s = json.dumps(trace, default=str)
        if len(s) < 3000:
            return trace
        return {"meta": trace.get("meta"), "ev_head": trace["ev"][:4], "n_events": len(trace["ev"])}


def validate(plan, traces):
    wd = workdir()
    n = len(traces)
    if n == 0:
        return [], {}, []
    shards = max(1, min(plan.shards, n))
    files, index = [], []
    stamp = int(time.time() * 1000) % 1000000
    for k in range(shards):
        idx = list(range(k, n, shards))
        path = os.path.join(wd, "%s_tr_%d_%d.json" % (plan.pid, stamp, k))
        write_json(path, [traces[i] for i in idx])
        files.append(path)
        index.append(idx)
    results = tlc.validate_sharded(plan.trace_module, plan.trace_cfg, files, heap=plan.heap)
    failures, done = [], {}
    for r, idx in zip(results, index):
        if r.errors or r.violated or r.rc != 0:
            raise MachineryError("TLC failed on trace batch: rc=%s %s\n%s" % (r.rc, r.errors[:3], r.stdout[-2500:]))
        for t in r.tuples:
            if t and t[0] == "F":
                failures.append((idx[t[1] - 1], t[2], t[3], t[4] if len(t) > 4 else ""))
            elif t and t[0] == "D":
                done[idx[t[1] - 1]] = (t[2], t[3] if len(t) > 3 else {})
    for f in files:
        try:
            os.remove(f)
        except OSError:
            pass
    if len(done) != n:
        raise MachineryError("TLC finished %d of %d traces\n%s" % (len(done), n, results[0].stdout[-1500:]))
    return failures, done, results


def run(plan, tier, replay_path=None):
    t0 = time.time()
    sd = seed()
    pid = plan.pid
    kf = [f for f in known_findings()["findings"] if f["property"] == pid]
    kf_sigs = {f["signature"]: f for f in kf}      # a signature excuses any clause of this property it is reported with
    cov = {"states": 0, "transitions": 0, "model_runs": [], "exhaustive": False}
    traces, inputs = [], []
    if replay_path:
        with open(replay_path) as fh:
            payload = json.load(fh)
        traces, inputs = plan.replay(payload)
    else:
        for name, module, cfg, root, expect in plan.model_runs(tier):
            r = tlc.model_check(module, cfg, root_text=root, timeout=900 if tier != "thorough" else 3000, tag="mc_" + name)
            rec = {"config": name, "states": r.distinct, "transitions": r.generated, "depth": r.depth,
                   "violated": r.violated, "expected_violated": expect, "wall_s": round(r.wall, 1),
                   "actions_taken": {k: v[1] for k, v in sorted(r.coverage.items()) if v[1] > 0 and k[0].isupper()}}
            cov["model_runs"].append(rec)
            if r.errors or r.distinct == 0:
                raise MachineryError("model check %s failed: %s\n%s" % (name, r.errors[:3], r.stdout[-2500:]))
            if sorted(set(r.violated)) != sorted(set(expect)):
                raise MachineryError("model check %s: violated %s, expected %s\n%s" % (name, r.violated, expect, r.cex[:3000]))
            cov["states"] += r.distinct
            cov["transitions"] += r.generated
        cov["exhaustive"] = True
        bt, bi, extra = plan.behaviours(tier, sd)
        traces += bt
        inputs += bi
        cov.update(extra)
        cov["behaviours_replayed"] = len(bt)
        if extra.get("drift_count"):
            say("NOTE drift: %d replayed steps behaved differently from the implementation-shaped model (first: %s)" %
                (extra["drift_count"], json.dumps(extra.get("drift_notes", [None])[0], default=str)[:300]))
        et, ei = plan.executions(tier, sd)
        traces += et
        inputs += ei
        post = plan.post(traces, inputs)
        cov.update(post)
        if post.get("drift_count"):
            say("NOTE drift: %d recorded executions are not behaviours of the implementation-shaped model (first: %s)" %
                (post["drift_count"], json.dumps(post.get("drift_notes", [None])[0], default=str)[:300]))
    nreal = len(traces)
    controls = [] if replay_path else plan.controls(traces)
    failures, done, _ = validate(plan, traces + controls)

    deferred = []          # machinery complaints: raised below unless real executions already violate the property
    missed = []
    for k, c in enumerate(controls):
        want = c["meta"]["control"]
        hit = [f for f in failures if f[0] == nreal + k and f[2] == want["clause"] and (not want.get("step") or f[1] == want["step"])]
        if not hit:
            missed.append(want)
    if missed:
        deferred.append("negative controls not detected: %s" % missed)

    counts = {c: 0 for c in plan.clauses}
    for i in range(nreal):
        for c in plan.clauses:
            counts[c] += (done[i][1] or {}).get(c, 0)
    if not replay_path:
        idle = [c for c, n in counts.items() if n == 0]
        if idle:
            deferred.append("clauses never exercised on real executions: %s" % idle)

    mine = [f for f in failures if f[0] < nreal and f[2] in plan.clauses]
    others = sorted({f[2] for f in failures if f[0] < nreal and f[2] not in plan.clauses})
    if others:
        say("NOTE clauses of other properties failed in these executions (judged by their own checks): %s" % others)
    viol, known_hit = [], {}
    for f in mine:
        if f[3] and f[3] in kf_sigs:
            known_hit.setdefault(f[3], []).append(f)
        else:
            viol.append(f)
    for sig, fs in known_hit.items():
        say("KNOWN-FINDING: property=%s %s (%s) -- %d occurrences, e.g. trace %d step %d" %
            (pid, kf_sigs[sig]["id"], kf_sigs[sig]["description"], len(fs), fs[0][0], fs[0][1]))
    if deferred and not viol:
        raise MachineryError("; ".join(deferred))
    if deferred:
        # controls and vacuity counts are derived from executions of the tree under test: when those already violate the
        # property they are not a reliable yardstick -- the violations are the verdict
        say("NOTE %s (not judged: the real executions violate the property)" % "; ".join(deferred)[:300])
    rc = EXIT_OK
    vpaths, seen = [], set()
    for f in viol:
        if f[0] in seen:
            continue
        seen.add(f[0])
        i, step, clause, _ = f
        payload = {"property": pid, "clause": clause, "step": step, "meta": traces[i].get("meta"),
                   "input": inputs[i] if i < len(inputs) else None,
                   "failing_event": plan.brief(traces[i], step),
                   "all_failures_in_trace": [list(x[1:]) for x in viol if x[0] == i]}
        path = save_violation(pid, "%s_%d" % (clause, len(vpaths)), payload)
        vpaths.append(path)
        if len(vpaths) <= 5:
            say("VIOLATION property=%s replay=%s" % (pid, path))
            say("  clause %s false at step %d: %s" % (clause, step, json.dumps(payload["failing_event"], default=str)[:300]))
        rc = EXIT_VIOLATION
    if not replay_path:
        xv, xcov = plan.extra(tier, sd)
        cov.update(xcov)
        for v in xv:
            payload = dict(v, property=pid)
            path = save_violation(pid, "%s_%d" % (v["clause"], len(vpaths)), payload)
            vpaths.append(path)
            if len(vpaths) <= 5:
                say("VIOLATION property=%s replay=%s" % (pid, path))
                say("  clause %s false at step %s: %s" % (v["clause"], v.get("step"), json.dumps(v.get("failing_event"), default=str)[:300]))
            rc = EXIT_VIOLATION
    cov.update({
        "traces_validated_against_impl": nreal,
        "recorded_events": sum(len(t.get("ev", [])) for t in traces),
        "negative_controls": len(controls),
        "negative_controls_detected": len(controls) - len(missed),
        "clause_antecedent_counts": counts,
        "known_findings_hit": {k: len(v) for k, v in known_hit.items()},
        "samples": [plan.sample(t) for t in traces[:3]],
    })
    if not replay_path:     # a replay re-judges one stored input: it is not a description of what a check covered
        write_evidence(pid, tier, cov, plan.assumptions, time.time() - t0, len(vpaths))
    say("%s %s: %d model states, %d traces (%d events), %d controls, %d violation(s), %.1fs" %
        (pid, tier, cov["states"], nreal, cov["recorded_events"], len(controls), len(vpaths), time.time() - t0))
    return rc
