"""Regenerates /verif/MANIFEST.json from the table below:  python -m harness.manifest"""
import json
import os

from .common import VERIF

BASE_CMD = ("cd /repo && /venv/bin/python -m pytest -ra -q -p no:cacheprovider --timeout=900 "
            "--continue-on-collection-errors")

BUILDER_NOTE = ("Trusted: Machine.tla as the reference interpreter; the recorder's projection of the public API "
                "(properties, get_parameter, emitted bytes tokenised into words); TLC. Bounds of the exhaustive model "
                "runs are in the evidence file; real executions are sampled (TLC behaviours + seeded random).")

CHECKS = {
    "C01": ("TLC checks C01_Pos/C01_Mode as action properties of BuilderImpl (every motion-API interleaving on a small grid, "
            "nested mode contexts) and evaluates the same clauses, with the interpreter Machine!Exec run inside TLC, after "
            "every call of recorded real executions (replayed TLC behaviours, random grid and float histories); an inductive "
            "invariant over unbounded coordinates (MotionInd) is discharged by Apalache.",
            "5 C01", BUILDER_NOTE),
    "C02": ("Complete exploration of the finite interlock model (tool/coolant/halt x power bounds) against C02_Safe/"
            "C02_Raises/C02_OnlyDoc; the same clauses judged by TLC on every call of recorded real executions; an inductive "
            "invariant over unbounded powers / tool numbers / bounds (InterlockInd) is discharged by Apalache.",
            "5 C02", BUILDER_NOTE),
    "C03": ("TLC explores bounds configurations x boundary values x modes on BuilderImpl; on real executions TLC checks every "
            "emitted word and every motion target against the bounds in force (exact order via q-records, so min-ulp / "
            "max+ulp / NaN are decided exactly).", "5 C03", BUILDER_NOTE),
    "C05": ("Every rejection branch of BuilderImpl from every reachable state (C05_NoEmit/C05_NoEffect as action "
            "properties); on real executions the full public snapshot before and after every rejected call is compared by TLC, "
            "and every history with refused calls is run again without them and compared call by call (C05_AsIfNever).",
            "5 C05", BUILDER_NOTE),
    "C06": ("C06_Off as an action property over the complete interlock model (all bounds configurations incl. ranges "
            "excluding zero) and on every off-call of recorded real executions; InterlockInd (Apalache, unbounded values).",
            "5 C06", BUILDER_NOTE),
    "C07": ("C07_Tool/Coolant/Modal/Temps/Params: the public snapshot is compared by TLC with the interpreter state derived "
            "from the emitted lines, after every call, in the model and on real executions.", "5 C07", BUILDER_NOTE),
    "C20": ("C20_Count/Geometry/Params: hook invocations recorded by a probe hook registered through add_hook are compared "
            "by TLC with the G1 lines and interpreter positions, in the model and on real executions.", "5 C20", BUILDER_NOTE),
}

CHECKS["C13"] = ("TLC explores the transform state machine (stack, named states, context-manager copies, Python object "
                 "aliasing as an explicit variable) on the integer sub-group; on real executions TLC compares the observed "
                 "map (probe images through apply_transform/reverse_transform) after every call with the contract's stack / "
                 "named / context semantics and, on the integer sub-group, with the matrix the specification composes itself.",
                 "5 C13", "Trusted: Transform.tla's matrix algebra; 5 probe points determine the affine map; TLC.")

CHECKS["C04"] = ("TLC checks C04_Words/Mentions/Bypass/Keeps as action properties of XformMoveImpl (integer sub-group maps x "
                 "partial moves/rapids/probes x both modes) and evaluates the same clauses on every motion call of recorded real "
                 "executions, with the map in force observed through apply_transform().",
                 "5 C04", "Trusted: XformMove.tla arithmetic at scale 1e4; Machine.tla; float runs are judged to 1.5 output units only.")

CHECKS["C17"] = ("TLC explores SockLinesImpl (the _read_buffer chunk list, every LF pattern of streams up to the bound, every "
                 "fragmentation chosen lazily at each read, 'no data yet' results and both select() answers) against the line "
                 "contract; every behaviour's peer script is replayed on the real Device.readline() and TLC judges the returned "
                 "lines; random streams with chunks of 1..256 bytes are judged the same way.",
                 "5 C17", "Trusted: the scripted socket file stands for the OS; SockLines.tla; TLC.")

CHECKS["C14"] = ("TLC explores WritersImpl (registry, lazily opened and buffered path files, streams, files the user opened, custom "
                 "writers; every interleaving of add/remove/write/flush/teardown; the code before fix F23 as a named deviation) "
                 "against the delivery/flush/teardown contract; behaviours are replayed on the real builder with real FileWriter, "
                 "ConsoleWriter and LogWriter objects and TLC compares the bytes read back after every action; ConfigWiring: all "
                 "288 configurations enumerated by TLC and constructed for real.",
                 "5 C14", "Trusted: a second file handle shows what is durably in a file; the driver's own rendering of a statement; TLC.")

CHECKS["C15"] = ("TLC explores SenderImpl (print thread, reader thread, firmware, both FIFOs, shared variables named as in "
                 "printcore) over jobs x corruption sets x delivery interleavings, with safety (in order, no duplicates), "
                 "termination and completeness modulo the two recorded findings; behaviours are projected onto corruption sets "
                 "and reply hold-points, replayed on the real printcore threads over a scripted serial port, and TLC re-derives "
                 "the firmware's view from the logged transmissions (framing, xor checksum, numbering, resend service, completeness); "
                 "schedules include zero latency (reply handled before write() returns) and sequences of jobs on one connection; the job life cycle (pause, resume, cancel, "
                 "';@pause', second job) is model-checked (SenderJobsImpl) and real executions are validated against it; beyond the property: "
                 "the analyser's layer table (GcoderLayers), the callback interface (CallbacksTrace), streaming over TCP (SenderTcpTrace).",
                 "5 C15", "Trusted: the Marlin-style firmware written in SenderTrace.tla; the fake serial port as the OS boundary; "
                 "event order under one lock (replies logged when the host's reader takes them).")
CHECKS["C16"] = ("TLC explores DirectWriteImpl (caller, sender thread, reader callback, start-up job) and shows synchrony/error "
                 "surfacing hold exactly outside the stale start-up acknowledgement (F12); the model's schedule choices are "
                 "enumerated and run on the real SerialWriter/PrintrunWriter/printcore threads; TLC judges order, synchrony, error "
                 "surfacing (also of alarms said while no statement is outstanding), termination of write() and disconnect(wait=True), "
                 "connection loss in flight and while idle, zero-latency acknowledgements, connect() on a connected writer, devices greeting with a Grbl "
                 "banner (StartupImpl: the start-up print with and without line numbers), on the logged events; 'the reading requested is available "
                 "when write() returns' (C16_Reading) is judged by ReportsTrace on executions with several report lines before the ok.",
                 "5 C16", "Trusted: the scripted device (one acknowledgement per line, in order); a 20 ms window before each "
                 "acknowledgement; event order under one lock.")

CHECKS["C18"] = ("TLC compares ReportsImpl (the regex-match loop with _reported_params, and the ok-branch order as a named "
                 "deviation) with the contract's Extract/Update over all token sequences within the bound; report lines rendered "
                 "from abstract tokens travel the real path (scripted serial port, printcore reader, writer callback) and TLC "
                 "compares get_parameter() after every write() with the contract.",
                 "5 C18", "Trusted: the driver's rendering of abstract tokens into report text; Reports.tla; the fake serial port.")

CHECKS["C09"] = ("TLC enumerates every payload over the token alphabet (line breaks, CR, the configured opener/closer, other "
                 "delimiters, a G-code-looking word) for every comment style on the template model and checks that what a machine "
                 "executes (lines cut at CR/LF, comments stripped under the configured style) is unchanged; the same payloads and "
                 "random unicode go through every text-accepting entry point of the real builder and TLC strips and compares the bytes.",
                 "5 C09", "Trusted: CommentSafety.tla's reading of how an interpreter removes comments; TLC.")

CHECKS["C08"] = ("TLC checks the lexical clause and the exact fidelity clause (|w - x| <= 1/2 unit, on decimal digit sequences) on "
                 "the rendering model FormatImpl for all enumerated mantissas x exponents x decimal places x sign; every model case "
                 "and thousands of doubles (ties, carries, subnormals, 1e15, numpy scalars, ints, NaN/inf) go through every "
                 "number-formatting builder command under several styles/line endings/relabelled axes, and TLC lexes the emitted "
                 "bytes and compares the word with the exact decimal expansion of the double (tolerance 1/2 unit + ulp).",
                 "5 C08", "Trusted: Decimal(x) as the exact expansion of a double; Format.tla's digit-sequence arithmetic; TLC.")

TR_NOTE = ("Trusted: Machine.tla reconstructs the vertices; FixedPoint.tla (ISqrt, 16-step CORDIC, checked against exact "
           "eighths of a turn in ShapesModel); tolerances stated in Tracer.tla; decimal_places=2 and |coordinates| <= 100 mm.")
CHECKS["C10"] = ("TLC checks the sweep rule and the CORDIC on all compass-point cases (ShapesModel) and, on recorded executions of "
                 "every tracer operation in both directions and modes, evaluates end point, start sample, constant radius, "
                 "monotone direction, total sweep (minor/major, turns), Z and radius linear in the angle, spline control points "
                 "in order and polyline points -- on vertices it reconstructs itself from the emitted G1 lines.", "5 C10", TR_NOTE)
CHECKS["C11"] = ("Every request is executed in absolute mode and, expressed as offsets, in relative mode from the same start; TLC "
                 "reconstructs both vertex sequences with the interpreter and compares them vertex by vertex (one rounding per "
                 "relative move allowed).", "5 C11", TR_NOTE)
CHECKS["C12"] = ("TLC explores the segment-filter automaton FilterImpl for every spacing sequence (kept segments within 0.9..1.01 "
                 "resolutions, last sample kept); on recorded arcs/circles/arc_radius paths TLC checks maximum and minimum segment "
                 "length, count proportional to length/resolution, count monotone under halving the resolution, the chord-error "
                 "bound, and that a units switch preserves the physical resolution.", "5 C12", TR_NOTE)

CHECKS["C19"] = ("TLC checks the point filter PathFilterImpl (drop rule, ends kept, order) for all height sequences within the bound; "
                 "on random 8/16-bit images and CSV point sets (also through real image / CSV files) TLC checks pixel values "
                 "(x column, y row, scale, zero outside), hull classification by integer orientation tests (stored points, min/max "
                 "inside, zero outside), and for sample_path the ends, collinearity, order, the map's own heights and the drop rule.",
                 "5 C19", "Trusted: Heightmap.tla; heights quantised to 10^-3; candidates of sparse lines re-queried through get_depth_at().")

NOT_YET = {}


def build():
    checks = []
    for pid in sorted(CHECKS):
        text, ref, note = CHECKS[pid]
        checks.append({
            "property_id": pid,
            "quick_cmd": "./check %s --tier quick" % pid,
            "thorough_cmd": "./check %s --tier thorough" % pid,
            "evidence_file": "/verif/evidence/%s.json" % pid,
            "replay_cmd_template": "./check %s --replay {path}" % pid,
            "engine": "tlc",
            "level_claimed": {"category": "model_checking", "text": text, "design_ref": "DESIGN.md section " + ref},
            "level_note": note,
            "technique": "explicit TLA+ specification (contract + implementation-shaped model) checked by TLC; "
                         "TLC-generated behaviours replayed on the real code and recorded executions validated by TLC",
        })
    props = [json.loads(l)["id"] for l in open(os.path.join(VERIF, "properties.jsonl"))]
    na = [{"property_id": p, "reason": NOT_YET.get(p, "check not built yet in this round (specification in progress); "
                                                        "no technique other than TLA+/TLC will be substituted")}
          for p in props if p not in CHECKS]
    m = {
        "version": 1,
        "setup_cmd": "./setup.sh",
        "hooks": {"guard": "GSCRIB_VERIF", "enable": "no source hooks are needed: the checks observe the public API and the OS "
                  "boundary (fake serial port / socket file) only", "baseline_off_cmd": BASE_CMD,
                  "source_commits": [], "add_only": True},
        "engines": [{"name": "tlc", "path": "/verif/specs", "serves_properties": sorted(CHECKS),
                     "kind_free_text": "TLA+ specifications checked with TLC 1.8 (tla2tools.jar); Python harness records/replays only"}],
        "checks": checks,
        "notes": "Exit codes: 0 held, 1 VIOLATION, 2 machinery error. KNOWN-FINDING lines refer to known_findings.json.",
        "not_applicable": na,
    }
    with open(os.path.join(VERIF, "MANIFEST.json"), "w") as fh:
        json.dump(m, fh, indent=1)
    return m


if __name__ == "__main__":
    build()
    print("MANIFEST.json written")
