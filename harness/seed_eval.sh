#!/bin/sh
# seed_eval.sh <ID> [check ids...] : confirm a seeded change (tests pass, demo flips) and run our checks against it.
# The checks are pointed at the scratch worktree through GSCRIB_REPO (they import gscrib from there), so /repo is
# never touched and several evaluations can run side by side.
ID=$1; shift
CHECKS=${@:-$ID}
WT=/tmp/wt/$ID; OUT=/tmp/wt/${ID}_out
echo "== $ID: demo on /repo (expect PASS)"; PYTHONPATH=/repo /venv/bin/python -W ignore $OUT/demo.py 2>&1 | tail -2
echo "== $ID: demo on worktree (expect FAIL)"; PYTHONPATH=$WT /venv/bin/python -W ignore $OUT/demo.py 2>&1 | tail -2
echo "== $ID: test suite on worktree"; (cd $WT && PYTHONPATH=$WT /venv/bin/python -m pytest -q -p no:cacheprovider --deselect tests/test_file_writer.py::test_write_to_invalid_path --deselect tests/test_printrun_core.py::TestConnect::test_bad_ports 2>&1 | tail -2)
git -C $WT diff > $OUT/patch.diff
for c in $CHECKS; do
  echo "== $ID: ./check $c --tier quick against the changed tree (expect exit 1)"
  (cd /verif && GSCRIB_REPO=$WT VERIF_EVIDENCE_DIR=/tmp/wt/${ID}_out/evidence timeout 1500 ./check $c --tier quick > $OUT/check_$c.log 2>&1; echo "exit=$?" >> $OUT/check_$c.log)
  grep -E "VIOLATION|KNOWN|MACHINERY|quick:|exit=" $OUT/check_$c.log | head -5
done
