#!/bin/sh
# seed_eval_wave.sh <suffix> [parallel]: evaluate every finished seed /tmp/wt/C??<suffix> (demo.py present, no eval.log yet),
# <parallel> at a time, each against the check of its own property; prints one summary line per seed.
SUF=$1; PAR=${2:-3}
cd "$(dirname "$0")/.." || exit 2
ls -d /tmp/wt/C??$SUF 2>/dev/null | while read wt; do
  id=$(basename $wt); out=/tmp/wt/${id}_out
  [ -f $out/demo.py ] && [ ! -f $out/eval.log ] && echo $id
done | xargs -r -P $PAR -I{} sh -c 'p=$(echo {} | cut -c1-3); timeout 1800 harness/seed_eval.sh {} $p > /tmp/wt/{}_out/eval.log 2>&1'
for out in /tmp/wt/C??${SUF}_out; do
  [ -f $out/eval.log ] || continue
  id=$(basename $out _out)
  echo "$id: violations=$(grep -c VIOLATION $out/eval.log) $(grep -E 'quick:|MACHINERY' $out/eval.log | cut -c1-100 | tr '\n' ' ') suite=$(grep -E ' passed' $out/eval.log | tail -1 | cut -c1-30)"
done
