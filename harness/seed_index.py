"""seed_index.py: regenerate seeded/INDEX.md from seeded/*/meta.json."""
import glob, json, os, re
root = os.path.join(os.path.dirname(os.path.abspath(__file__)), "..", "seeded")
rows = []
for m in glob.glob(os.path.join(root, "*", "meta.json")):
    d = json.load(open(m)); sid = os.path.basename(os.path.dirname(m))
    rows.append((d["property"], len(sid), sid, d["needs_to_manifest"], ", ".join(d.get("detected_by", [])), d.get("detected")))
rows.sort()
n, det = len(rows), sum(1 for r in rows if r[5])
with open(os.path.join(root, "INDEX.md"), "w") as f:
    f.write("# Seeded changes: index\n\nGenerated from `seeded/*/meta.json` (what `harness/seed_eval.sh` observed on the committed checks: suite result on the changed\n"
            "tree, demo verdicts on both trees, the clauses whose VIOLATION lines reported the change). %d seeds, %s.\n\n" % (n, "all detected" if det == n else "%d detected" % det))
    f.write("| property | seed | what it needs to manifest | reported by |\n|---|---|---|---|\n")
    for p, _, sid, needs, by, _d in rows:
        f.write("| %s | %s | %s | %s |\n" % (p, sid, needs.replace("|", "/").replace("\n", " "), by))
print(n, det)
