#!/bin/sh
# seed_regress.sh <seed ids...> : re-run the committed quick check of each stored seed's property against the seed's patch
# (scratch worktree under /tmp/wt/r_<id>, removed afterwards); prints one line per seed: detected (exit 1 + VIOLATION) or not.
cd "$(dirname "$0")/.." || exit 2
mkdir -p /tmp/wt
for id in "$@"; do echo $id; done | xargs -P ${PAR:-6} -I{} sh -c '
  id={}; p=$(echo $id | cut -c1-3); wt=/tmp/wt/r_$id
  git -C /repo worktree add --detach $wt HEAD >/dev/null 2>&1 && git -C $wt apply /verif/seeded/$id/patch.diff || { echo "$id: patch does not apply"; git -C /repo worktree remove --force $wt; exit 0; }
  GSCRIB_REPO=$wt VERIF_EVIDENCE_DIR=/tmp/wt/r_${id}_ev timeout 1500 ./check $p --tier quick > /tmp/wt/r_$id.log 2>&1; rc=$?
  echo "$id: rc=$rc violations=$(grep -c VIOLATION /tmp/wt/r_$id.log)"
  git -C /repo worktree remove --force $wt; rm -rf /tmp/wt/r_${id}_ev'
