"""seed_save.py <ID> <needs-to-manifest text> [note]: store an evaluated seeded change under /verif/seeded/<ID>/.

Reads what harness/seed_eval.sh left in /tmp/wt/<ID>_out (patch.diff, demo.py, notes.md, check_<Cxx>.log, eval.log) and
writes meta.json with what was actually observed: suite result on the changed tree, demo verdicts, and the clauses of the
committed checks that reported it.  Nothing is assumed: `detected` is true only if a check log holds a VIOLATION line.
"""
import json, os, re, shutil, subprocess, sys

ID, needs = sys.argv[1], sys.argv[2]
note = sys.argv[3] if len(sys.argv) > 3 else None
src, wt, dst = f"/tmp/wt/{ID}_out", f"/tmp/wt/{ID}", f"/verif/seeded/{ID}"
os.makedirs(dst, exist_ok=True)
for f in ("patch.diff", "demo.py", "notes.md"):
    shutil.copy(os.path.join(src, f), os.path.join(dst, f))
py = "/venv/bin/python"
r0 = subprocess.run([py, "-W", "ignore", f"{src}/demo.py"], env={**os.environ, "PYTHONPATH": "/repo"}, capture_output=True, text=True)
r1 = subprocess.run([py, "-W", "ignore", f"{src}/demo.py"], env={**os.environ, "PYTHONPATH": wt}, capture_output=True, text=True)
suite = ""
ev = os.path.join(src, "eval.log")
if os.path.exists(ev):
    m = re.findall(r"^.*\d+ passed.*$", open(ev).read(), re.M)
    suite = m[-1].strip() if m else ""
clauses, ran = [], []
for f in sorted(os.listdir(src)):
    m = re.match(r"check_(C\d+)\.log", f)
    if not m:
        continue
    txt = open(os.path.join(src, f)).read()
    ran.append(m.group(1))
    for v in re.findall(r"VIOLATION property=(C\d+) replay=\S*/(C\d+_[A-Za-z0-9_]+?)_\d+\.json", txt):
        if v[1] not in clauses:
            clauses.append(v[1])
meta = {
    "property": re.match(r"C\d+", ID).group(0),
    "origin": "independent sub-agent (fourteenth wave) given only the property text, the ten earlier seeds' triggers to avoid, and a scratch worktree",
    "needs_to_manifest": needs,
    "confirmed": {"existing_suite_on_changed_tree": suite,
                  "demo_on_unchanged": "PASS" if r0.returncode == 0 else f"exit {r0.returncode}",
                  "demo_on_changed": "FAIL (exit 1)" if r1.returncode == 1 else f"exit {r1.returncode}"},
    "ran": f"harness/seed_eval.sh {ID} {' '.join(ran)}  (GSCRIB_REPO=<changed worktree> ./check <id> --tier quick)",
    "detected_by": clauses,
    "detected": bool(clauses),
}
if note:
    meta["note"] = note
json.dump(meta, open(os.path.join(dst, "meta.json"), "w"), indent=1)
print(json.dumps(meta, indent=1))
