"""Thread harness for the bundled Printrun sender (C15, C16, C18).

Only the OS boundary is replaced: `serial.Serial` becomes FakeSerial and
Device._disable_ttyhup is stubbed, exactly as the repository's own tests do.
Everything inside gscrib runs for real, with its real threads.

One lock orders all events at that boundary; the log is the trace. Python's
bookkeeping of which reply lines are owed is a convenience for driving the
host -- the specification re-derives it from the logged transmissions.
"""
import threading
import time
from unittest import mock

OK = b"ok\n"


class Hub:
    """Scripted device behind the fake serial port."""

    def __init__(self, corrupt=(), holds=None, max_hold=0.08, mode="firmware", instant=False):
        self.instant = instant           # zero latency: the reply is read and handled by the host's reader BEFORE write() returns
        self.auto = None                 # manual mode: callable(data) -> lines said at once (zero latency) for that transmission
        self.fail_write = None           # callable(data) -> True when the serial port must refuse this write
        self.njob = 1                    # streamed jobs on this connection so far (run_job with next_jobs)
        self.job_first = True            # the next job-phase transmission is the first of its job
        self.corrupt_open = set()        # job numbers whose opening M110 the link corrupts
        self.lock = threading.RLock()
        self.events = []
        self.corrupt = set(corrupt)      # indices (0-based) of job-phase transmissions the link corrupts
        self.holds = holds or {}         # reply index -> minimum number of transmissions before it is released
        self.max_hold = max_hold
        self.mode = mode                 # "firmware": Marlin-style replies; "manual": replies only via push()
        self.owed = []                   # reply lines not yet released: (bytes, born)
        self.released = []               # queue read by FakeSerial.readline
        self.ntx = 0                     # job-phase transmissions
        self.nrel = 0
        self.nrel_seen = 0
        self.expected = 1
        self.online = False
        self.closed = False
        self.tx_all = []
        self.cv = threading.Condition(self.lock)

    # ---- host side (called on gscrib's threads)
    def on_write(self, data):
        with self.lock:
            data = bytes(data)
            self.tx_all.append(data)
            if not self.online:
                # connection handshake of printcore._listen_until_online: answer the probe
                self.events.append({"k": "hs", "text": list(data)})
                if getattr(self, "greeting", None) and not getattr(self, "greeted", False):
                    # a controller that introduces itself first (a Grbl banner switches printcore's line numbers off)
                    self.greeted = True
                    self.released.append((bytes(self.greeting), {"k": "hsrel", "text": list(self.greeting)}))
                self.released.append((OK, {"k": "hsrel", "text": list(OK)}))
                self.cv.notify_all()
                return
            i = self.ntx
            self.ntx += 1
            bad = i in self.corrupt and data.startswith(b"N")    # un-numbered priority commands carry no checksum: not corrupted here
            if self.job_first and self.njob in self.corrupt_open and b"M110" in data:
                bad = True
            self.job_first = False
            self.events.append({"k": "tx", "text": list(data), "bad": bad, "i": i})
            target = None
            if self.mode == "manual" and self.auto is not None:
                # scripted device with zero latency for chosen statements: the lines it says are handed to the reader
                # before write() returns to the sending thread
                for line in self.auto(data):
                    self.released.append((line, {"k": "rel", "text": list(line)}))
                    self.nrel += 1
                    target = self.nrel
            if self.mode == "firmware":
                for r in self._firmware(data, bad):
                    self.owed.append((r, time.monotonic()))
                if self.instant is True or (self.instant and i in self.instant):
                    # the writing thread is "descheduled" inside write(): everything owed is handed to the reader now
                    while self.owed:
                        line, _ = self.owed.pop(0)
                        self.released.append((line, {"k": "rel", "text": list(line)}))
                        self.nrel += 1
                    target = self.nrel
            self.cv.notify_all()
        if target is not None:
            t0 = time.monotonic()
            while self.nrel_seen < target and time.monotonic() - t0 < 0.3:
                time.sleep(0.0005)
            time.sleep(0.003)               # the reader thread handles the line it has just been given

    def _firmware(self, data, bad):
        """Marlin-style: convenience only, re-derived by SenderTrace.tla."""
        txt = data.decode("ascii", "replace").rstrip("\n")
        if not bad and not txt.startswith("N"):
            return [OK]                       # an un-numbered (priority) command: executed, line counter untouched
        good, n, cmd = False, None, ""
        try:
            if not bad and txt.startswith("N") and "*" in txt:
                body, cs = txt.rsplit("*", 1)
                x = 0
                for ch in body:
                    x ^= ord(ch)
                if int(cs) == x:
                    head, cmd = body.split(" ", 1)
                    n = int(head[1:])
                    good = True
        except ValueError:
            good = False
        if good and cmd.startswith("M110 N"):
            self.expected = int(cmd[6:]) + 1
            return [OK]
        if good and n == self.expected:
            self.expected += 1
            return [OK]
        return [("Resend: %d\n" % self.expected).encode(), OK]

    def readline(self, timeout=0.01):
        """Called on the host's reader thread. A reply counts as handed to the host when this returns it: the
        event is logged here, under the lock (linearisation point of 'the device said ...')."""
        with self.cv:
            if not self.released:
                self.cv.wait(timeout)
            if self.released:
                line, ev = self.released.pop(0)
                self.events.append(ev)
                if ev["k"] == "rel":
                    self.nrel_seen += 1
                return line
        return b""

    # ---- device side
    def push(self, line):
        """Manual mode: hand a reply line to the host now."""
        with self.lock:
            ev = {"k": "rel", "text": list(line)}
            self.released.append((line, ev))
            self.nrel += 1
            self.cv.notify_all()
            return ev

    def pump(self):
        """Release owed replies according to the hold thresholds. Returns True if something was released."""
        with self.lock:
            if not self.owed:
                return False
            line, born = self.owed[0]
            j = self.nrel
            need = self.holds.get(j, 0)
            if self.ntx >= need or time.monotonic() - born > self.max_hold:
                self.owed.pop(0)
                self.released.append((line, {"k": "rel", "text": list(line)}))
                self.nrel += 1
                self.cv.notify_all()
                return True
        return False

    def log(self, ev):
        with self.lock:
            self.events.append(ev)


class FakeSerial:
    hub = None

    def __init__(self, *a, **kw):
        self.is_open = False
        self.port = kw.get("port")
        self.baudrate = kw.get("baudrate")
        self.timeout = kw.get("timeout")
        self.parity = kw.get("parity")
        self.dtr = None

    def open(self):
        self.is_open = True

    def close(self):
        self.is_open = False

    def write(self, data):
        import serial
        if not self.is_open:
            raise serial.SerialException("closed")
        hub = FakeSerial.hub
        if hub.fail_write is not None and hub.fail_write(bytes(data)):
            # the port refuses this write (reads keep timing out: the reader thread stays alive)
            hub.log({"k": "wfail", "text": list(bytes(data))})
            raise serial.SerialException("write failed")
        hub.on_write(data)
        return len(data)

    def readline(self):
        if FakeSerial.hub.closed:
            import serial
            raise serial.SerialException("device disconnected")
        return FakeSerial.hub.readline()

    def flush(self):
        pass


class patched:
    """Context manager: install the fake serial port for one scenario."""

    def __init__(self, hub):
        self.hub = hub

    def __enter__(self):
        FakeSerial.hub = self.hub
        self.p1 = mock.patch("serial.Serial", FakeSerial)
        self.p2 = mock.patch("gscrib.printrun.device.Device._disable_ttyhup")
        self.p1.start()
        self.p2.start()
        return self.hub

    def __exit__(self, *a):
        self.p1.stop()
        self.p2.stop()
        FakeSerial.hub = None


class patched_socket:
    """The same scripted device behind a TCP socket: only socket.connect, SocketIO.read/write and the selector are
    replaced (the OS boundary); Device._readline_socket reassembles lines from the fragments handed out here."""

    def __init__(self, hub, fragment=True):
        self.hub = hub
        self.fragment = fragment
        self.pending = b""
        self.stall = self.dry = self.nsplit = 0

    def _read(self, n=256):
        hub = self.hub
        if hub.closed:
            raise OSError(107, "Transport endpoint is not connected")
        with hub.cv:
            if not self.pending and hub.released:
                line, ev = hub.released.pop(0)
                self.pending, self.pending_ev = line, ev
            if not self.pending:
                return None                      # no data yet
            if self.stall > 0:                   # the second segment of a split line is late: nothing to read yet
                self.stall -= 1
                return None
            k = max(1, len(self.pending) // 2) if self.fragment and len(self.pending) > 3 else len(self.pending)
            out, self.pending = self.pending[:k], self.pending[k:]
            if self.pending:
                # every other split line: one empty read and one select() time-out before the rest arrives
                # (added after seed C16e: a reader that gave up the fragment it had buffered)
                self.nsplit += 1
                if self.nsplit % 2 == 0:
                    self.stall, self.dry = 1, 1
            if not self.pending:                 # the line is complete on the host's side only now
                hub.events.append(self.pending_ev)
                if self.pending_ev["k"] == "rel":
                    hub.nrel_seen += 1
            return out

    def _write(self, data):
        self.hub.on_write(bytes(data))
        return len(data)

    def _select(self, timeout=None):
        hub = self.hub
        with hub.cv:
            if self.dry > 0:                     # a genuine time-out while the rest of a line is still on its way
                self.dry -= 1
                return []
            if not self.pending and not hub.released and not hub.closed:
                hub.cv.wait(min(timeout or 0.01, 0.01))
            return [("ready", 1)] if (self.pending or hub.released or hub.closed) else []

    def __enter__(self):
        import selectors
        outer = self

        class FakeSelector:
            def register(self, *a, **k):
                return None

            def unregister(self, *a, **k):
                return None

            def select(self, timeout=None):
                return outer._select(timeout)

            def close(self):
                return None
        self.ps = [mock.patch("socket.socket.connect"), mock.patch("socket.SocketIO.read", side_effect=self._read),
                   mock.patch("socket.SocketIO.write", side_effect=self._write),
                   mock.patch("selectors.DefaultSelector", FakeSelector)]
        for p in self.ps:
            p.start()
        return self.hub

    def __exit__(self, *a):
        for p in self.ps:
            p.stop()


def strip_job_line(raw):
    """Independent reading of 'executable part of a job line': text before ';', trimmed."""
    i = raw.find(";")
    code = raw if i < 0 else raw[:i]
    return code.strip()


def run_job(lines, corrupt=(), holds=None, deadline=20.0, pauses=(), instant=False, next_jobs=(), corrupt_open=(), mode="serial",
            greeting=None, streaming=False):
    """Stream `lines` with the real printcore (then, on the same connection, each job of `next_jobs`). Returns the trace.
    mode "socket": the same firmware behind a TCP connection (printcore.connect("host:port")), replies arriving in fragments."""
    from gscrib.printrun import gcoder
    from gscrib.printrun.printcore import printcore
    hub = Hub(corrupt=corrupt, holds=holds, instant=instant)
    hub.corrupt_open = set(corrupt_open)
    hub.greeting = greeting
    later = [list(j) for j in next_jobs]
    job = [strip_job_line(x) for x in lines]
    job = [x for x in job if x]
    joined = False
    with (patched(hub) if mode == "serial" else patched_socket(hub)):
        p = printcore()
        p.loud = False
        if streaming:
            p.tcp_streaming_mode = True       # over TCP: do not wait for each ok (the transport does the flow control)
        try:
            p.connect("/mocked/port" if mode == "serial" else "127.0.0.1:8000", 115200)
            t0 = time.monotonic()
            while not p.online and time.monotonic() - t0 < 5:
                if mode != "serial":
                    hub.pump()
                time.sleep(0.002)
            if not p.online:
                raise RuntimeError("host never came online")
            with hub.lock:
                hub.online = True
            # let the handshake quiesce (a second probe may be in flight)
            time.sleep(0.05)
            with hub.lock:
                hub.released.clear()
            gc = gcoder.GCode(lines)
            if not p.startprint(gc):
                raise RuntimeError("startprint refused")
            t0 = time.monotonic()
            idle_since = None
            pending = sorted(pauses)
            while time.monotonic() - t0 < deadline:
                moved = hub.pump()
                if pending and hub.ntx >= pending[0] and p.printing:
                    # pause() from another thread, let the link drain, resume()
                    pending.pop(0)
                    if p.pause() is not False:
                        hub.log({"k": "pause"})
                        t1 = time.monotonic()
                        while time.monotonic() - t1 < 2.0:
                            hub.pump()
                            with hub.lock:
                                if not hub.owed and not hub.released:
                                    break
                            time.sleep(0.001)
                        time.sleep(0.02)
                        hub.log({"k": "resume"})
                        p.resume()
                    continue
                done = (not p.printing) and p.print_thread is None and not p.paused
                with hub.lock:
                    quiet = not hub.owed and not hub.released
                if done and quiet:
                    if idle_since is None:
                        idle_since = time.monotonic()
                    elif time.monotonic() - idle_since > 0.05:
                        if later:
                            # the job is over and the link has drained: the next job on the same connection
                            nxt = later.pop(0)
                            jl = [x for x in (strip_job_line(y) for y in nxt) if x]
                            with hub.lock:
                                hub.events.append({"k": "newjob", "job": [list(x.encode("ascii")) for x in jl]})
                                hub.njob += 1
                                hub.job_first = True
                            if not p.startprint(gcoder.GCode(nxt)):
                                raise RuntimeError("startprint refused")
                            idle_since = None
                            continue
                        joined = True
                        break
                else:
                    idle_since = None
                if not moved:
                    time.sleep(0.001)
        finally:
            hub.log({"k": "end", "joined": joined})
            try:
                p.cancelprint()
                hub.closed = False
                p.disconnect()
            except Exception:
                pass
    ev = [e for e in hub.events if e["k"] in ("tx", "rel", "end", "pause", "resume", "newjob")]
    for e in ev:
        e.setdefault("text", [])
        e.setdefault("bad", False)
        e.setdefault("joined", False)
        e.setdefault("job", [])
        e.pop("i", None)
    return {"meta": {"corrupt": sorted(corrupt), "holds": {str(k): v for k, v in (holds or {}).items()}, "pauses": sorted(pauses),
                     "instant": bool(instant), "jobs": 1 + len(next_jobs), "corrupt_open": sorted(corrupt_open), "mode": mode, "streaming": bool(streaming)},
            "job": [list(x.encode("ascii")) for x in job], "raw": lines, "ev": ev}


def run_life(jobs, actions, corrupt=(), holds=None, deadline=25.0, preamble=(), instant=False):
    """The job life cycle of the real printcore (beyond C15): several startprint() calls, pause(), resume(),
    cancelprint() and the host command ';@pause' inside a job.
    jobs: list of jobs (lists of raw lines); the first is started at once.
    actions: [{"when": "ntx", "n": k, "do": "pause"|"cancel"} | {"when": "paused", "do": "resume"|"cancel"} |
              {"when": "idle", "do": "start"}], taken in order; an "ntx" action whose print ended first is dropped.
    Logged besides tx / rel: "start" (before startprint), "pause" / "cancel" (after the call returned: the print thread
    is joined), "resume" (before the call), "end"."""
    from gscrib.printrun import gcoder
    from gscrib.printrun.printcore import printcore
    hub = Hub(corrupt=corrupt, holds=holds)
    joined = False
    pending = [dict(a) for a in actions]
    want_instant = instant
    nextjob = 0

    def drain(limit=2.0):
        t1 = time.monotonic()
        while time.monotonic() - t1 < limit:
            hub.pump()
            with hub.lock:
                if not hub.owed and not hub.released:
                    break
            time.sleep(0.001)
        time.sleep(0.03)

    class Rec:
        """A PrinterEventHandler that logs the callbacks it receives, under the hub's lock (CallbacksTrace.tla)."""

        def _log(self, name, text="", flag=False, idx=-1):
            hub.log({"k": "cb", "name": name, "text": list(str(text).encode("utf-8", "replace")), "flag": bool(flag), "idx": int(idx)})

        def on_init(self): pass
        def on_connect(self): pass
        def on_disconnect(self): pass
        def on_online(self): pass
        def on_error(self, error): pass
        def on_temp(self, line): pass
        def on_layerchange(self, layer): pass
        def on_send(self, command, gline): self._log("send", command)
        def on_recv(self, line): self._log("recv", line.rstrip("\n"))
        def on_start(self, resume): self._log("start", flag=resume)
        def on_end(self): self._log("end")
        def on_preprintsend(self, gline, index, mainqueue): self._log("preprint", gline.raw, idx=index)
        def on_printsend(self, gline): self._log("printsend", gline.raw)

    with patched(hub):
        p = printcore()
        p.loud = False
        try:
            p.connect("/mocked/port", 115200)
            t0 = time.monotonic()
            while not p.online and time.monotonic() - t0 < 5:
                time.sleep(0.002)
            if not p.online:
                raise RuntimeError("host never came online")
            with hub.lock:
                hub.online = True
            time.sleep(0.05)
            with hub.lock:
                hub.released.clear()
            p.addEventHandler(Rec())
            for cmd in preamble:                      # e.g. G91: sent (and analysed) before the first job; not part of the trace
                p.send_now(cmd)
            if preamble:
                t1 = time.monotonic()
                while time.monotonic() - t1 < 2.0 and len([e for e in hub.events if e["k"] == "rel"]) < len(preamble):
                    hub.pump()
                    time.sleep(0.001)
                drain(0.5)
                with hub.lock:
                    hub.events.append({"k": "pre_end"})
                    hub.ntx = 0
                    hub.nrel = 0
            hub.instant = want_instant          # zero latency from here on (not during the connection handshake)
            hub.log({"k": "start", "job": nextjob + 1})
            if not p.startprint(gcoder.GCode(jobs[nextjob])):
                raise RuntimeError("startprint refused")
            nextjob += 1
            t0 = time.monotonic()
            idle_since = None
            while time.monotonic() - t0 < deadline:
                moved = hub.pump()
                idle = (not p.printing) and p.print_thread is None and not p.paused
                with hub.lock:
                    quiet = not hub.owed and not hub.released
                a = pending[0] if pending else None
                if a and a["when"] == "ntx" and idle:
                    pending.pop(0)                       # the print ended before the trigger: moot
                    continue
                if a and a["when"] == "ntx" and hub.ntx >= a["n"] and p.printing:
                    pending.pop(0)
                    if a["do"] == "pause":
                        if p.pause() is not False:
                            hub.log({"k": "pause"})
                    else:
                        p.cancelprint()
                        hub.log({"k": "cancel"})
                    drain()
                    continue
                if a and a["when"] == "paused" and p.paused and not p.printing and p.print_thread is None:
                    pending.pop(0)
                    drain()
                    if a["do"] == "resume":
                        hub.log({"k": "resume"})
                        p.resume()
                    else:
                        p.cancelprint()
                        hub.log({"k": "cancel"})
                        drain()
                    continue
                if a and a["when"] == "paused" and idle and quiet:
                    pending.pop(0)                       # never paused (e.g. cancelled before): moot
                    continue
                if a and a["when"] == "idle" and idle and quiet and nextjob < len(jobs):
                    if idle_since is None:
                        idle_since = time.monotonic()
                    elif time.monotonic() - idle_since > 0.05:
                        pending.pop(0)
                        idle_since = None
                        hub.log({"k": "start", "job": nextjob + 1})
                        if not p.startprint(gcoder.GCode(jobs[nextjob])):
                            raise RuntimeError("startprint refused")
                        nextjob += 1
                    continue
                if not pending and idle and quiet:
                    if idle_since is None:
                        idle_since = time.monotonic()
                    elif time.monotonic() - idle_since > 0.05:
                        joined = True
                        break
                elif not (a and a["when"] == "idle"):
                    idle_since = None
                if not moved:
                    time.sleep(0.001)
        finally:
            hub.log({"k": "end", "joined": joined})
            try:
                p.cancelprint()
                hub.closed = False
                p.disconnect()
            except Exception:
                pass
    evs = hub.events
    if preamble:
        cut = [i for i, e in enumerate(evs) if e["k"] == "pre_end"]
        evs = evs[cut[0] + 1:] if cut else evs
    allev = [e for e in evs if e["k"] in ("tx", "rel", "end", "pause", "resume", "cancel", "start", "cb")]
    for e in allev:
        e.setdefault("text", [])
        e.setdefault("bad", False)
        e.setdefault("joined", False)
        e.setdefault("job", 0)
        e.setdefault("name", "")
        e.setdefault("flag", False)
        e.setdefault("idx", -1)
        e.pop("i", None)
    ev = [e for e in allev if e["k"] != "cb"]
    return {"meta": {"corrupt": sorted(corrupt), "holds": {str(k): v for k, v in (holds or {}).items()}, "actions": actions,
                     "unserved": len(pending)},
            "jobs": jobs, "ev": ev, "evcb": allev}


# ----------------------------------------------------------------------------
# Direct write (C16) and report parsing (C18)

LETTERS = ["X", "Y", "Z", "A", "B", "C", "E", "F", "S", "T"]


def _is_m110(data):
    return b"M110" in bytes(data)


def run_direct(stmts, acks, status=None, late_hs=False, settle=0.02, do_disconnect=True, readings=False,
               deadline=8.0, mode="serial", lose_at=0, slow=None, lose_idle_after=0, instant=(), idle_lines=None, fail_write_at=0,
               reconnect_before=(), boot_reply=None):
    """Drive the real SerialWriter/PrintrunWriter. stmts: list of bytes handed to write(); acks: the reply line
    (bytes) the device gives to each statement; status: {k: [lines pushed before the ack of statement k]};
    late_hs: the ok of the second start-up M110 is released only after the first write() began."""
    import gscrib.writers.printrun_writer as pw
    from gscrib.excepts import DeviceError
    from gscrib.writers import SerialWriter, SocketWriter
    status = status or {}
    hub = Hub(mode="manual")
    hub.online = True           # every write of the host is logged as tx; the probe is answered below
    results = {}
    held = []

    def await_(pred, timeout):
        t0 = time.monotonic()
        while time.monotonic() - t0 < timeout:
            with hub.lock:
                if pred():
                    return True
            time.sleep(0.001)
        return False

    def ntx_stmt():
        return len([e for e in hub.events if e["k"] == "tx" and not _is_m110(e["text"]) and not bytes(e["text"]).startswith(b"G4 P0")])

    def serve_handshake():
        """Answer probes and start-up M110 lines that were not answered yet."""
        with hub.lock:
            txs = [e for e in hub.events if e["k"] == "tx"]
            for e in txs:
                if e.get("answered"):
                    continue
                t = bytes(e["text"])
                if t.startswith(b"G4 P0") or _is_m110(t):
                    e["answered"] = True
                    nm = len([x for x in txs if _is_m110(x["text"]) and x.get("answered")])
                    if late_hs and _is_m110(t) and nm == 2:
                        held.append(OK)
                    elif boot_reply and t.startswith(b"G4 P0") and not boot_said:
                        # the line that brings the host online is itself a report (added after seed C18h: e.g. an auto-report
                        # or "ok T:.. B:.." answering the probe); its readings count like any other's
                        boot_said.append(True)
                        for line in ([bytes(boot_reply)] if isinstance(boot_reply, (bytes, bytearray)) else [bytes(x) for x in boot_reply]):
                            hub.released.append((line, {"k": "rel", "text": list(line), "hs": True}))
                        hub.cv.notify_all()
                    else:
                        hub.released.append((OK, {"k": "rel", "text": list(OK), "hs": True}))
                        hub.cv.notify_all()

    boot_said = []
    instant = set(instant or ())
    answered = set()
    failed = set()

    def fail_write(data):
        """The serial port refuses the write of statement `fail_write_at` (once)."""
        if not fail_write_at or _is_m110(data) or bytes(data).startswith(b"G4 P0") or fail_write_at in failed:
            return False
        if ntx_stmt() + 1 + len(failed) == fail_write_at:
            failed.add(fail_write_at)
            return True
        return False
    hub.fail_write = fail_write

    def auto(data):
        """Zero latency for the statements in `instant`: status lines and acknowledgement are said inside write()."""
        if _is_m110(data) or bytes(data).startswith(b"G4 P0") or not instant:
            return []
        k = ntx_stmt()                  # this transmission is already logged: it is statement k
        if k in instant and k not in answered and 1 <= k <= len(acks):
            answered.add(k)
            return [bytes(x) for x in status.get(k, [])] + [acks[k - 1]]
        return []
    hub.auto = auto

    old_poll = pw.POLLING_INTERVAL
    pw.POLLING_INTERVAL = 0.003
    with (patched(hub) if mode == "serial" else patched_socket(hub)):
        w = SerialWriter("/mocked/port", 115200) if mode == "serial" else SocketWriter("127.0.0.1", 8000)
        w.set_timeout(5.0 if not slow else slow[1])      # slow = (statement, writer timeout, acknowledgement latency)
        th = threading.Thread(target=lambda: results.__setitem__("connect", _guard(w.connect)), daemon=True)
        th.start()
        t0 = time.monotonic()
        while th.is_alive() and time.monotonic() - t0 < 6:
            serve_handshake()
            time.sleep(0.001)
        serve_handshake()
        if not late_hs:
            # a device that has answered every start-up line before the first statement: wait until the host's
            # reader has taken those answers (otherwise the run is inside finding F12 by accident)
            await_(lambda: not hub.released, 2.0)
            time.sleep(settle)
        hub.log({"k": "connected", "res": str(results.get("connect"))})
        try:
            chatty = False
            for k, stmt in enumerate(stmts, start=1):
                if k in set(reconnect_before or ()):
                    # connect() on a writer that is connected already (explicitly or through `with writer:`): nothing to do, and
                    # nothing is to be said to the device (added after seed C16h); whatever it does say is answered late
                    ct = threading.Thread(target=lambda: _guard(w.connect), daemon=True)
                    ct.start()
                    ct.join(0.3)
                    time.sleep(settle)
                    chatty = True
                want = stmt.decode("utf-8", "replace").strip().encode("utf-8") + b"\n"
                hub.log({"k": "call", "s": k, "text": list(want)})

                def do_write(k=k, stmt=stmt):
                    try:
                        w.write(stmt)
                        res = "ok"
                    except DeviceError as e:
                        res = "DeviceError" if type(e) is DeviceError else "DeviceError:" + type(e).__name__
                    except Exception as e:
                        res = type(e).__name__
                    snap = {l: w.get_parameter(l) for l in LETTERS} if readings else None
                    hub.log({"k": "ret", "s": k, "res": res, "readings": snap})
                wt = threading.Thread(target=do_write, daemon=True)
                wt.start()
                if fail_write_at == k:
                    # nothing reaches the device: write() must raise, and return
                    ok = await_(lambda: any(e["k"] == "ret" and e["s"] == k for e in hub.events), deadline)
                    if not ok:
                        hub.log({"k": "stuck", "s": k, "tx": False})
                    do_disconnect = False
                    break
                if chatty:
                    # the device answers whatever else the host said, while the statement is (perhaps) waiting behind it
                    t1 = time.monotonic()
                    while time.monotonic() - t1 < deadline and ntx_stmt() < k:
                        serve_handshake()
                        time.sleep(0.002)
                got_tx = await_(lambda: ntx_stmt() >= k, deadline)
                if held:
                    hub.push(held.pop(0))["hs"] = True
                    time.sleep(settle)
                serve_handshake()
                if k in answered:               # zero latency: everything was said inside write()
                    ok = await_(lambda: any(e["k"] == "ret" and e["s"] == k for e in hub.events), deadline)
                    if not ok:
                        hub.log({"k": "stuck", "s": k, "tx": got_tx})
                        break
                    continue
                for line in status.get(k, []):
                    hub.push(line)
                time.sleep(settle)             # a window in which a too-eager write() can return; never a verdict
                if slow and slow[0] == k:
                    time.sleep(slow[2])        # an acknowledgement slower than the writer's own timeout
                if lose_idle_after and k > lose_idle_after:
                    pass                        # the link is down: the device says nothing
                elif lose_at == k:
                    with hub.lock:             # the link drops before this statement is acknowledged
                        hub.closed = True
                        hub.events.append({"k": "lost", "s": k})
                        hub.cv.notify_all()
                elif got_tx:
                    hub.push(acks[k - 1])
                ok = await_(lambda: any(e["k"] == "ret" and e["s"] == k for e in hub.events), deadline)
                if not ok:
                    hub.log({"k": "stuck", "s": k, "tx": got_tx})
                    break
                if lose_at == k:
                    do_disconnect = False
                    break
                for line in (idle_lines or {}).get(k, []):
                    # the device says something (an alarm) while no statement is outstanding
                    before = hub.nrel_seen
                    hub.push(bytes(line))
                    await_(lambda: hub.nrel_seen > before, 1.0)
                    # the reader has TAKEN the line; give its callback time to handle it before the next statement is
                    # written (peeking at the writer's private error slot is synchronisation only, never a verdict)
                    await_(lambda: getattr(w, "_device_error", None) is not None, 0.5)
                    time.sleep(0.01)
                if lose_idle_after == k:
                    with hub.lock:             # the link drops while nothing is in flight; the next write() must raise
                        hub.closed = True
                        hub.events.append({"k": "lost", "s": k})
                        hub.cv.notify_all()
                    time.sleep(0.05)
                    do_disconnect = False
            if do_disconnect:
                hub.log({"k": "disc_call"})
                dt = threading.Thread(target=lambda: results.__setitem__("disc", _guard(lambda: w.disconnect(True))), daemon=True)
                dt.start()
                dt.join(deadline)
                hub.log({"k": "disc_ret", "res": str(results.get("disc")), "alive": dt.is_alive()})
        finally:
            pw.POLLING_INTERVAL = old_poll
            # clean-up only (never a verdict): a writer whose threads are wedged must not wedge the harness with them
            with hub.lock:
                hub.closed = True
                hub.cv.notify_all()
            ft = threading.Thread(target=lambda: _guard(lambda: w.disconnect(False)), daemon=True)
            ft.start()
            ft.join(2.0)
    ev = []
    for e in hub.events:
        if e["k"] in ("hs", "hsrel"):
            continue
        x = {"k": e["k"], "text": e.get("text", []), "s": e.get("s", 0), "res": e.get("res", ""),
             "hs": bool(e.get("hs", False)), "alive": bool(e.get("alive", False))}
        if readings:
            r = e.get("readings") or {}
            x["readings"] = {l: _qr(r.get(l)) for l in LETTERS}
        ev.append(x)
    return {"meta": {"late_hs": late_hs, "mode": mode}, "ev": ev}


def _guard(fn):
    try:
        fn()
        return "ok"
    except Exception as e:
        return type(e).__name__


def _qr(v):
    """reading -> {k, v} in milli-units"""
    if v is None:
        return {"k": False, "v": 0}
    return {"k": True, "v": int(round(float(v) * 1000))}
