"""Recorder for C17: the real Device (socket type) reading from a scripted
socket file. Only the OS boundary is replaced (SocketIO.read, selector.select,
socket.connect), as the repository's own tests do."""
from unittest import mock


def run_script(stream, script, sel, max_extra=None, writes=None, dev=None):
    """stream: bytes; script: list of int (chunk size) | "again" | "eof";
    sel: list of bool answers of selector.select(). After the script is used
    up the peer hands out what is left (<=256 per read) and then EOF.
    writes: list of bool -- before the j-th readline() the host also write()s a command (the usual "got a line, send the next
    command" step; added after seed C17h, a write() that took in pending input): what is read must not depend on it.
    Returns the trace."""
    from gscrib.printrun import device
    state = {"pos": 0, "i": 0, "closed": False, "sel": 0}

    def fake_read(n):
        if state["i"] < len(script):
            item = script[state["i"]]
            state["i"] += 1
        else:
            item = min(256, len(stream) - state["pos"]) or "eof"
        if item == "again":
            return None
        if item == "eof" or state["pos"] >= len(stream):
            if state["pos"] < len(stream):       # never signal EOF before everything was sent
                k = min(n, len(stream) - state["pos"])
                out = stream[state["pos"]:state["pos"] + k]
                state["pos"] += k
                return out
            state["closed"] = True
            return b""
        k = min(int(item), n, len(stream) - state["pos"])
        out = stream[state["pos"]:state["pos"] + k]
        state["pos"] += k
        return out

    def fake_select(timeout=None):
        j = state["sel"]
        state["sel"] += 1
        return [("ready", 1)] if (j < len(sel) and sel[j]) else []

    # dev: a Device that served an earlier connection already (added after seed C17i: an end-of-stream flag that survived the
    # reconnect); a connection's lines are its own stream's, whatever the object read before
    dev = dev if dev is not None else device.Device()
    events = []
    writes = list(writes or [])
    with mock.patch("socket.socket.connect"), mock.patch("socket.SocketIO.read", side_effect=fake_read), \
            mock.patch("socket.SocketIO.write", side_effect=lambda data: len(data)):
        dev.connect("127.0.0.1:80")
        dev._selector = mock.Mock()
        dev._selector.select = fake_select
        limit = max_extra or (3 * len(stream) + len(script) + 12)
        for j in range(limit):
            if j < len(writes) and writes[j]:
                try:
                    dev.write(b"M105\n")
                except Exception:
                    pass
            try:
                r = dev.readline()
            except Exception as e:
                events.append({"k": "exc:" + type(e).__name__, "b": [], "closed": state["closed"]})
                break
            closed = state["closed"] or state["pos"] >= len(stream)
            if r is None:
                events.append({"k": "eof", "b": [], "closed": closed})
                if len([e for e in events if e["k"] == "eof"]) >= 2:
                    break
            elif r == b"":
                events.append({"k": "empty", "b": [], "closed": closed})
            else:
                events.append({"k": "line", "b": list(r), "closed": closed})
        try:
            dev._selector = None
            dev.disconnect()
        except Exception:
            pass
    return {"meta": {"script": [str(x) for x in script], "sel": [bool(x) for x in sel], "writes": [bool(x) for x in writes]},
            "stream": list(stream), "ev": events}


def run_sessions(sessions):
    """Several connections, one after the other, through ONE Device object. sessions: list of (stream, script, sel).
    Returns one trace per connection."""
    from gscrib.printrun import device
    dev = device.Device()
    out = []
    for stream, script, sel in sessions:
        t = run_script(stream, script, sel, dev=dev)
        t["meta"]["session"] = len(out) + 1
        out.append(t)
    return out
