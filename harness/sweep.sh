#!/bin/sh
# sweep.sh <seeds...> : run every quick check with several seeds; print one line per (check, seed) that is not a clean pass.
cd "$(dirname "$0")/.." || exit 2
for s in "$@"; do
  for p in C01 C02 C03 C04 C05 C06 C07 C08 C09 C10 C11 C12 C13 C14 C15 C16 C17 C18 C19 C20; do
    VERIF_SEED=$s timeout 1200 ./check $p --tier quick > .work/sweep_${p}_$s.log 2>&1
    rc=$?
    if [ $rc -ne 0 ]; then echo "seed=$s $p rc=$rc"; grep -E "VIOLATION|MACHINERY|clause" .work/sweep_${p}_$s.log | head -4 | cut -c1-400; fi
  done
  echo "seed $s done"
done
