"""Parser for TLA+ values as printed by TLC (states of behaviours, PrintT output).

Supported: integers, strings, booleans, <<sequences>>, {sets}, records
[a |-> v, ...], functions (k :> v @@ ...), model-value-like identifiers.
Sets are returned as Python lists, functions and records as dicts.
"""


class ParseError(Exception):
    pass


class _P:
    def __init__(self, s):
        self.s = s
        self.i = 0

    def ws(self):
        s = self.s
        while self.i < len(s) and s[self.i] in " \t\r\n":
            self.i += 1

    def peek(self, n=1):
        return self.s[self.i:self.i + n]

    def expect(self, t):
        self.ws()
        if not self.s.startswith(t, self.i):
            raise ParseError("expected %r at %d: %r" % (t, self.i, self.s[self.i:self.i + 30]))
        self.i += len(t)

    def value(self):
        self.ws()
        s = self.s
        c = self.peek()
        if c == "":
            raise ParseError("unexpected end")
        if self.peek(2) == "<<":
            self.i += 2
            out = []
            self.ws()
            if self.peek(2) == ">>":
                self.i += 2
                return out
            while True:
                out.append(self.value())
                self.ws()
                if self.peek(2) == ">>":
                    self.i += 2
                    return out
                self.expect(",")
        if c == "{":
            self.i += 1
            out = []
            self.ws()
            if self.peek() == "}":
                self.i += 1
                return out
            while True:
                out.append(self.value())
                self.ws()
                if self.peek() == "}":
                    self.i += 1
                    return out
                self.expect(",")
        if c == "[":
            self.i += 1
            out = {}
            self.ws()
            if self.peek() == "]":
                self.i += 1
                return out
            while True:
                self.ws()
                j = self.i
                while self.i < len(s) and (s[self.i].isalnum() or s[self.i] == "_"):
                    self.i += 1
                key = s[j:self.i]
                self.expect("|->")
                out[key] = self.value()
                self.ws()
                if self.peek() == "]":
                    self.i += 1
                    return out
                self.expect(",")
        if c == "(":
            # function: (k :> v @@ k :> v)
            self.i += 1
            out = {}
            while True:
                k = self.value()
                self.expect(":>")
                v = self.value()
                out[k if not isinstance(k, list) else tuple(k)] = v
                self.ws()
                if self.peek() == ")":
                    self.i += 1
                    return out
                self.expect("@@")
        if c == '"':
            self.i += 1
            buf = []
            while True:
                ch = s[self.i]
                if ch == "\\":
                    nx = s[self.i + 1]
                    buf.append({"n": "\n", "t": "\t", "r": "\r", '"': '"', "\\": "\\"}.get(nx, nx))
                    self.i += 2
                elif ch == '"':
                    self.i += 1
                    return "".join(buf)
                else:
                    buf.append(ch)
                    self.i += 1
        if c == "-" or c.isdigit():
            j = self.i
            self.i += 1
            while self.i < len(s) and s[self.i].isdigit():
                self.i += 1
            return int(s[j:self.i])
        j = self.i
        while self.i < len(s) and (s[self.i].isalnum() or s[self.i] == "_"):
            self.i += 1
        word = s[j:self.i]
        if word == "TRUE":
            return True
        if word == "FALSE":
            return False
        if not word:
            raise ParseError("cannot parse at %d: %r" % (self.i, s[self.i:self.i + 30]))
        return word


def parse(text):
    p = _P(text)
    v = p.value()
    p.ws()
    if p.i != len(p.s):
        raise ParseError("trailing text at %d: %r" % (p.i, p.s[p.i:p.i + 30]))
    return v


def extract_tuples(stdout):
    """Find every top-level <<...>> printed at the start of a line (PrintT)."""
    out = []
    lines = stdout.split("\n")
    i = 0
    n = len(lines)
    while i < n:
        ln = lines[i]
        if ln.startswith("<<"):
            buf = ln
            depth = buf.count("<<") - buf.count(">>")
            while depth > 0 and i + 1 < n:
                i += 1
                buf += "\n" + lines[i]
                depth = buf.count("<<") - buf.count(">>")
            try:
                out.append(parse(buf.strip()))
            except ParseError:
                pass
        i += 1
    return out


def parse_behaviour_file(path):
    """Parse a file written by `tlc -simulate file=...`: list of
    (action_header, {var: value}) per state."""
    with open(path) as fh:
        text = fh.read()
    states = []
    header = None
    cur = None
    for ln in text.split("\n"):
        if ln.startswith("\\*"):
            header = ln[2:].strip()
            continue
        if ln.startswith("STATE_"):
            if cur is not None:
                states.append(cur)
            cur = [header, ""]
            continue
        if cur is not None:
            if ln.strip() == "" or ln.startswith("===="):
                if cur[1].strip():
                    states.append(cur)
                    cur = None
                continue
            cur[1] += ln + "\n"
    if cur is not None and cur[1].strip():
        states.append(cur)
    out = []
    for header, body in states:
        out.append((header, _parse_conj(body)))
    return out


def _parse_conj(body):
    """Parse `/\\ v = value` conjunction lists (values may span lines)."""
    vars_ = {}
    parts = []
    cur = None
    for ln in body.split("\n"):
        if ln.startswith("/\\ "):
            if cur is not None:
                parts.append(cur)
            cur = ln[3:]
        elif cur is not None:
            cur += "\n" + ln
        elif ln.strip():
            cur = ln
    if cur is not None:
        parts.append(cur)
    for p in parts:
        if "=" not in p:
            continue
        name, _, val = p.partition("=")
        vars_[name.strip()] = parse(val.strip())
    return vars_
