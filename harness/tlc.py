"""Start TLC (model checking, simulation, batched trace validation) and parse
what it reports. The verdicts are TLC's; this module only transports them."""
import glob
import os
import re
import subprocess
import time

from . import tlaval
from .common import SPECS, MachineryError, workdir

JAR = "/opt/veriftools/tla/tla2tools.jar:/opt/veriftools/tla/CommunityModules-deps.jar"

_seq = [0]


class TLCResult:
    def __init__(self):
        self.stdout = ""
        self.rc = None
        self.generated = 0
        self.distinct = 0
        self.depth = 0
        self.violated = []      # names of invariants / properties TLC reports violated
        self.errors = []        # other "Error:" lines
        self.coverage = {}      # action name -> (distinct, taken)
        self.tuples = []        # PrintT output
        self.wall = 0.0
        self.cmd = ""
        self.deadlock = False
        self.cex = ""

    @property
    def clean(self):
        return not self.violated and not self.errors and not self.deadlock


def _fresh(tag):
    _seq[0] += 1
    d = os.path.join(workdir(), "%s_%d" % (tag, _seq[0]))
    os.makedirs(d, exist_ok=True)
    return d


def _run(args, env_extra, heap, timeout, cwd):
    cmd = ["java", "-XX:+UseParallelGC", "-Xmx" + heap, "-Xss16m", "-DTLA-Library=" + SPECS,
           "-cp", JAR, "tlc2.TLC"] + args
    env = dict(os.environ)
    env.pop("JAVA_TOOL_OPTIONS", None)
    if env_extra:
        env.update(env_extra)
    t0 = time.time()
    try:
        p = subprocess.run(cmd, cwd=cwd, env=env, stdout=subprocess.PIPE, stderr=subprocess.STDOUT,
                           timeout=timeout, text=True, errors="replace")
    except subprocess.TimeoutExpired as e:
        raise MachineryError("TLC timed out after %ss: %s" % (timeout, " ".join(cmd)))
    r = TLCResult()
    r.stdout = p.stdout
    r.rc = p.returncode
    r.wall = time.time() - t0
    r.cmd = " ".join(cmd)
    _parse(r)
    return r


_COV = re.compile(r"^<(\w+) line (\d+), col \d+ to line \d+, col \d+ of module (\w+)>: (\d+):(\d+)")


def _parse(r):
    out = r.stdout
    for m in re.finditer(r"(\d+) states generated, (\d+) distinct states found", out):
        r.generated, r.distinct = int(m.group(1)), int(m.group(2))
    m = re.search(r"depth of the complete state graph search is (\d+)", out)
    if m:
        r.depth = int(m.group(1))
    for ln in out.split("\n"):
        if ln.startswith("Error:"):
            mm = re.match(r"Error: Invariant (\w+) is violated", ln)
            if mm:
                r.violated.append(mm.group(1))
                continue
            mm = re.match(r"Error: Action property (\w+) is violated", ln)
            if mm:
                r.violated.append(mm.group(1))
                continue
            mm = re.match(r"Error: Temporal property (\w+) was violated", ln)
            if mm:                                    # TLC 1.8 names the property
                r.violated.append(mm.group(1))
                continue
            if "Temporal properties were violated" in ln:
                r.violated.append("TEMPORAL")
                continue
            if "Deadlock reached" in ln:
                r.deadlock = True
                continue
            if "The behavior up to this point is" in ln or "The following behavior constitutes a counter-example" in ln:
                continue
            r.errors.append(ln)
        mm = _COV.match(ln)
        if mm:
            name = mm.group(1)
            d, t = int(mm.group(4)), int(mm.group(5))
            pd, pt = r.coverage.get(name, (0, 0))
            r.coverage[name] = (pd + d, pt + t)
    i = out.find("The behavior up to this point is")
    if i < 0:
        i = out.find("The following behavior constitutes a counter-example")
    if i >= 0:
        r.cex = out[i:i + 20000]
    r.tuples = tlaval.extract_tuples(out)


def _root(d, module, cfg_text, root_text):
    """Write the cfg (and, when constants need definitions, a wrapper root
    module that EXTENDS the real one) into the scratch directory."""
    cfg = os.path.join(d, module + ".cfg")
    with open(cfg, "w") as fh:
        fh.write(cfg_text)
    if root_text is not None:
        spec = os.path.join(d, module + ".tla")
        with open(spec, "w") as fh:
            fh.write(root_text)
    else:
        spec = os.path.join(SPECS, module + ".tla")
    return cfg, spec


def wrapper(name, extends, defs):
    """Root module text: constants that a cfg cannot spell (negative numbers,
    tuples) become definitions substituted with `<-`."""
    lines = ["---- MODULE %s ----" % name, "EXTENDS %s" % extends]
    for k, v in defs.items():
        lines.append("%s == %s" % (k, v))
    lines.append("====")
    return "\n".join(lines) + "\n"


def model_check(module, cfg_text, workers=16, heap="8g", coverage=True, timeout=3600,
                deadlock=False, env=None, root_text=None, tag="mc"):
    d = _fresh(tag)
    cfg, spec = _root(d, module, cfg_text, root_text)
    args = ["-workers", str(workers), "-metadir", os.path.join(d, "meta"), "-noGenerateSpecTE",
            "-config", cfg]
    if not deadlock:
        args.append("-deadlock")
    if coverage:
        args += ["-coverage", "1"]
    args.append(spec)
    return _run(args, env, heap, timeout, d)


def simulate(module, cfg_text, num, depth, seed, timeout=600, heap="2g", env=None, root_text=None, tag="sim"):
    """Returns (result, list of behaviour files)."""
    d = _fresh(tag)
    cfg, spec = _root(d, module, cfg_text, root_text)
    bdir = os.path.join(d, "beh")
    os.makedirs(bdir)
    args = ["-simulate", "file=%s/tr,num=%d" % (bdir, num), "-depth", str(depth), "-workers", "1",
            "-seed", str(seed), "-metadir", os.path.join(d, "meta"), "-noGenerateSpecTE", "-deadlock",
            "-config", cfg, spec]
    r = _run(args, env, heap, timeout, d)
    files = sorted(glob.glob(os.path.join(bdir, "tr*")))
    return r, files


def validate(module, cfg_text, trace_file, heap="3g", timeout=1800, env=None, tag="val"):
    """Batched trace validation: one linear behaviour per recorded trace."""
    d = _fresh(tag)
    cfg = os.path.join(d, module + ".cfg")
    with open(cfg, "w") as fh:
        fh.write(cfg_text)
    e = {"TRACE_FILE": trace_file}
    if env:
        e.update(env)
    args = ["-workers", "1", "-metadir", os.path.join(d, "meta"), "-noGenerateSpecTE", "-deadlock",
            "-config", cfg, os.path.join(SPECS, module + ".tla")]
    return _run(args, e, heap, timeout, d)


def validate_sharded(module, cfg_text, shards, heap="3g", timeout=1800, par=12, env=None):
    """Run `validate` on several trace files in parallel. Returns list of results."""
    from concurrent.futures import ThreadPoolExecutor
    with ThreadPoolExecutor(max_workers=par) as ex:
        futs = [ex.submit(validate, module, cfg_text, s, heap, timeout, env) for s in shards]
        return [f.result() for f in futs]
