"""Recorder / drivers for the tracer family (C10, C11, C12): each request is
executed on fresh real builders in absolute mode, in relative mode (request
expressed as offsets) and at half the resolution; only the emitted lines are
recorded -- the vertices are reconstructed by the interpreter inside TLC."""
import math
import random

from .builder_rec import RecWriter, split_comment, tokenize

U = 100
DP = 2


def q(x, u=U):
    return int(round(x * u))


def q3(p, u=U):
    return [q(c, u) for c in p]


def _builder(res, ccw, start, dp=DP, rot=None, feed=None):
    from gscrib import GCodeBuilder
    g = GCodeBuilder(decimal_places=dp, line_endings="\\n")
    try:
        while True:
            g.remove_writer(g.get_writer(0))
    except IndexError:
        pass
    rw = RecWriter()
    g.add_writer(rw.make())
    g.set_resolution(res)
    g.set_direction("counter" if ccw else "clockwise")
    if rot is not None:
        g.transform.rotate(rot)          # the work frame is rotated before anything moves: the machine starts at the image of `start`
    if feed:
        # a feed rate is in force when the curve is traced (added after seed C12j: the segment length coupled to the programmed
        # feed); segment lengths are a matter of the resolution alone
        g.set_feed_rate(feed)
    g.move(x=start[0], y=start[1], z=start[2])
    rw.take()
    return g, rw


def _call(g, req, rel):
    s = req["start"]
    shape = req["shape"]
    t = g.trace

    def tgt(p, has_z=True):
        p = list(p)
        if rel:
            p = [p[i] - s[i] for i in range(3)]
        return tuple(p if has_z else p[:2])

    def seq(points):
        # waypoints of mixed arity (added after seed C11h): a point whose height is the previous one's may be written (x, y) --
        # "keeps its height" in absolute mode, "no offset in Z" in relative mode
        flat = req.get("flat") or [False] * len(points)
        out, prev = [], s
        for p, f in zip(points, flat):
            q = tuple(p) if not rel else tuple(p[i] - prev[i] for i in range(3))
            out.append(q[:2] if f else q)
            prev = p
        return out
    def centre(c):
        off = tuple(req["off"]) if req.get("off") else (c[0] - s[0], c[1] - s[1])
        # a 3-component centre offset whose Z is not zero (added after seed C10h): e.g. `centre_point - g.position` with the tool
        # at another height; the height of the curve is the tool's (and the target's), the centre's Z plays no part
        return off + (req["cz"],) if req.get("cz") else off
    if shape == "arc":
        return t.arc(tgt(req["target"], req["hasz"]), centre(req["center"]))
    if shape == "arc_radius":
        return t.arc_radius(tgt(req["target"], req["hasz"]), req["radius"])
    if shape == "circle":
        return t.circle(centre(req["center"]))
    if shape == "helix":
        c = req["center"]
        return t.helix(tgt(req["target"], True), (c[0] - s[0], c[1] - s[1]), req["turns"])
    if shape == "spiral":
        return t.spiral(tgt(req["target"], True), req["turns"])
    if shape == "thread":
        return t.thread(tgt(req["target"], True), req["pitch"])
    if shape == "spline":
        return t.spline(seq(req["controls"]))
    if shape == "polyline":
        return t.polyline(seq(req["controls"]))
    if shape == "mixed":
        # plain moves (offsets in relative mode), absolute-bypass moves (absolute coordinates in both modes) and mode
        # context managers: the same waypoints must be visited in both runs (C11)
        prev = s
        for op, p in zip(req["ops"], req["controls"]):
            off = tuple(p[i] - prev[i] for i in range(3))
            ab = tuple(p)
            if op in ("move", "rapid"):
                getattr(g, op)(off if rel else ab)
            elif op in ("move_part", "rapid_part"):
                # only the axes that change are named (added after seed C11g: in a rotated frame the unnamed machine axes move too)
                names = [n for i, n in enumerate("xyz") if p[i] != prev[i]]
                getattr(g, op[:-5])(**{n: (off if rel else ab)["xyz".index(n)] for n in names})
            elif op in ("move_absolute", "rapid_absolute"):
                getattr(g, op)(x=ab[0], y=ab[1], z=ab[2])
            elif op == "refused_abs":
                # an absolute-bypass move the builder refuses (negative feed), the program going on (added after seed C11j: the
                # mode was switched by hand and not switched back when the move raised); then the waypoint by a plain move
                try:
                    g.move_absolute(x=ab[0], y=ab[1], z=ab[2], F=-1.0)
                except ValueError:
                    pass
                g.move(off if rel else ab)
            elif op == "ctx_switch":
                # a context of the mode the builder is ALREADY in, the mode switched inside: on exit the mode in force at
                # entry must be back (added after seed C11e)
                with (g.relative_mode() if rel else g.absolute_mode()):
                    g.set_distance_mode("absolute" if rel else "relative")
                    g.move(ab if rel else off)
            elif op == "ctx_abs":
                with g.absolute_mode():
                    g.move(ab)
            else:
                with g.relative_mode():
                    g.rapid(off)
            prev = p
        return None
    if shape == "parametric":
        # a user curve in ABSOLUTE work coordinates (the API's meaning in both distance modes); f(0) need not be where the tool is
        import numpy as np
        c, a, b, k, h = req["pc"], req["pa"], req["pb"], req["pk"], req["ph"]

        def curve(thetas):
            if req.get("planar"):
                # a planar user curve given as (x, y) only (added after seed C11i): to_distance_mode() documents that an
                # unspecified coordinate of the target counts as 0 -- the curve lies in the plane Z = 0, in either mode
                return np.column_stack((c[0] + a * np.cos(2 * np.pi * k * thetas), c[1] + b * np.sin(2 * np.pi * k * thetas)))
            return np.column_stack((c[0] + a * np.cos(2 * np.pi * k * thetas), c[1] + b * np.sin(2 * np.pi * k * thetas),
                                    c[2] + h * thetas))
        return t.parametric(curve, req["len"])
    raise KeyError(shape)


def rotated(p, deg):
    """Image of a work-frame point under transform.rotate(deg) about Z (computed here, not by the library)."""
    a = math.radians(deg)
    return [p[0] * math.cos(a) - p[1] * math.sin(a), p[0] * math.sin(a) + p[1] * math.cos(a), p[2]]


def _run(req, res, rel):
    dp = req.get("dp", DP)
    g, rw = _builder(res, req["ccw"], req["start"], dp, req.get("rot"), req.get("feed"))
    if req.get("warm"):
        # the builder has a history: the same request was traced before with another resolution and direction, and the tool
        # was brought back (anything the tracer remembered from that run must not leak into this one)
        try:
            g.set_resolution(res * 2.5)
            g.set_direction("clockwise" if req["ccw"] else "counter")
            _call(g, req, False)
        except Exception:
            pass
        g.set_resolution(res)
        g.set_direction("counter" if req["ccw"] else "clockwise")
        g.move(x=req["start"][0], y=req["start"][1], z=req["start"][2])
        rw.take()
    if rel:
        g.set_distance_mode("relative")
        rw.take()
    out = "ok"
    try:
        _call(g, req, rel)
    except Exception as e:
        out = type(e).__name__
    lines = []
    for ch in rw.take():
        text = ch.decode().rstrip("\n")
        code, _ = split_comment(text)
        lines.append({"ws": [{"l": w["l"], "v": w["v"]} for w in tokenize(code, 10 ** dp)]})
    return out, lines


def record(req):
    res = req["res"]
    u = 10 ** req.get("dp", DP)
    only = bool(req.get("only_abs", False))
    outA, la = _run(req, res, False)
    outR, lr = ("ok", []) if only else _run(req, res, True)
    outH, lh = ("ok", []) if only else _run(req, res / 2.0, False)
    if req.get("rot") is not None:       # what the machine sees: every work-frame point of the request through the rotation
        req = dict(req, start=rotated(req["start"], req["rot"]), target=rotated(req["target"], req["rot"]),
                   controls=[rotated(p, req["rot"]) for p in req.get("controls", [])],
                   centers=[rotated(c, req["rot"]) for c in req.get("centers", [req.get("center", req["start"])])])
    ev = {"shape": req["shape"], "ccw": bool(req["ccw"]), "res": q(res, u), "start": q3(req["start"], u), "target": q3(req["target"], u),
          "centers": [q3(c, u) for c in req.get("centers", [req.get("center", req["start"])])], "r": q(req.get("r", 0.0), u),
          "turns": int(req.get("turns", 1)), "far": bool(req.get("far", False)), "len": q(req.get("len", 0.0), u),
          "minor": req.get("minor", "any"), "controls": [q3(p, u) for p in req.get("controls", [])], "onlyA": only,
          "cr": bool(req.get("cr", False)), "invalid": bool(req.get("invalid", False)),
          "outA": outA, "outR": outR, "outH": outH, "linesA": la, "linesR": lr, "linesH": lh}
    return ev


def gen_long(rng):
    """A circle / arc whose length is thousands of resolutions (C12: 'four orders of magnitude of length/resolution'),
    recorded at 3 decimals, absolute run only."""
    ratio = rng.choice([1300, 2600, 4100, 6283, 8000])
    r = rng.uniform(18, 26)
    ccw = rng.random() < 0.5
    a0 = rng.uniform(-math.pi, math.pi)
    s = [round(rng.uniform(-2, 2), 3), round(rng.uniform(-2, 2), 3), 0.0]
    c = [s[0] - r * math.cos(a0), s[1] - r * math.sin(a0), 0.0]
    res = round(2 * math.pi * r / ratio, 4)
    return {"shape": "circle", "res": res, "ccw": ccw, "start": s, "target": list(s), "center": c, "centers": [c], "r": r,
            "hasz": False, "far": True, "len": 2 * math.pi * r, "turns": 1, "dp": 3, "only_abs": True}


def gen_far(rng):
    """A short arc at a fine resolution far from the origin (added after seed C12i: "the point coincides with the current
    position" tested with a RELATIVE tolerance): coordinates of the order of 10^5 resolutions, recorded at 3 decimals,
    absolute run only."""
    res = rng.choice([0.004, 0.005, 0.008])
    r = rng.uniform(1.5, 3.0)
    ccw = rng.random() < 0.5
    a0 = rng.uniform(-math.pi, math.pi)
    s = [round(rng.choice([-1, 1]) * rng.uniform(900, 1800), 3), round(rng.choice([-1, 1]) * rng.uniform(600, 1200), 3), 0.0]
    c = [s[0] - r * math.cos(a0), s[1] - r * math.sin(a0), 0.0]
    sweep = rng.uniform(0.8, 2.5)
    a1 = a0 + (1.0 if ccw else -1.0) * sweep
    t = [c[0] + r * math.cos(a1), c[1] + r * math.sin(a1), 0.0]
    return {"shape": "arc", "res": res, "ccw": ccw, "start": s, "target": t, "center": c, "centers": [c], "r": r,
            "hasz": False, "far": True, "len": r * sweep, "turns": 1, "dp": 3, "only_abs": True, "warm": False}


def off_circle(rng, n=8):
    """arc() requests whose target is NOT on the circle through the start: off by 4-9 thousandths radially, the way coordinates
    rounded by a CAM program are (added after seed C10k: such targets accepted with a tolerance of 0.01 while the curve kept
    the start's radius -- the path ended beside its target).  The request is not valid, so refusing it is in order
    (`invalid`); if it is carried out, every clause applies: above all the path must end ON the requested target.  Recorded
    at 3 decimals, absolute run only."""
    out = []
    for _ in range(n):
        res = rng.choice([0.1, 0.2])                # in thousandths: (1.05 res)^2 scaled by 10^4 must fit as well
        r = rng.uniform(3.0, 9.0)                  # small: squared distances in thousandths must fit TLC's integers
        ccw = rng.random() < 0.5
        a0 = rng.uniform(-math.pi, math.pi)
        s = [round(rng.uniform(-5, 5), 3), round(rng.uniform(-5, 5), 3), round(rng.uniform(-3, 3), 1)]
        c = [s[0] - r * math.cos(a0), s[1] - r * math.sin(a0), s[2]]
        sweep = rng.uniform(0.6, 2.6)
        a1 = a0 + (1.0 if ccw else -1.0) * sweep
        r1 = r + rng.choice([-1, 1]) * rng.uniform(0.004, 0.009)
        t = [round(c[0] + r1 * math.cos(a1), 3), round(c[1] + r1 * math.sin(a1), 3), s[2]]
        out.append({"shape": "arc", "res": res, "ccw": ccw, "start": s, "target": t, "center": c, "centers": [c], "r": r,
                    "hasz": False, "far": False, "len": r * sweep, "turns": 1, "dp": 3, "only_abs": True, "warm": False,
                    "invalid": True})
    return out


def small_loops(rng, n=8):
    """Full turns whose diameter is below the resolution (added after seed C10j: the segment filter measuring the chord from
    the last kept vertex instead of the path length -- every interior vertex of such a loop was dropped and the "circle"
    swept no angle at all).  Their three or four vertices are judged by the end-point, radius and far-side clauses (the
    angle sums are built for small steps: far = False)."""
    out = []
    for _ in range(n):
        res = 2.0
        r = rng.uniform(0.36, 0.45) * res          # steps of 2.2-2.8 rad: still below a half turn, so their sense is unambiguous
        a0 = rng.uniform(-math.pi, math.pi)
        s = [round(rng.uniform(-20, 20), 2), round(rng.uniform(-20, 20), 2), round(rng.uniform(-3, 3), 1)]
        c = [s[0] - r * math.cos(a0), s[1] - r * math.sin(a0), s[2]]
        out.append({"shape": "circle", "res": res, "ccw": rng.random() < 0.5, "start": list(s), "turns": 1, "warm": False,
                    "target": list(s), "center": list(c), "centers": [list(c)], "r": r, "hasz": False, "far": False,
                    "len": 2 * math.pi * r})
    return out


def closed_curves(rng, n=24):
    """Full turns written the way a user writes them (added after seed C10g): start and centre offset in short decimals, both
    offset components non-zero, both directions -- the start and target vectors of a closed curve then differ in their last
    bit in either sense."""
    out = []
    for _ in range(n // 2):
        dec = rng.choice([1, 1, 2])
        s = [round(rng.uniform(0, 40), dec), round(rng.uniform(0, 40), dec), round(rng.uniform(-3, 3), 1)]
        off = [round(rng.choice([-1, 1]) * rng.uniform(1.1, 9.9), dec), round(rng.choice([-1, 1]) * rng.uniform(1.1, 9.9), dec)]
        r = math.hypot(*off)
        c = [s[0] + off[0], s[1] + off[1], s[2]]
        for ccw in (False, True):
            out.append({"shape": "circle", "res": rng.choice([0.2, 0.5]), "ccw": ccw, "start": list(s), "turns": 1, "warm": False,
                        "off": list(off), "target": list(s), "center": list(c), "centers": [list(c)], "r": r, "hasz": False,
                        "far": True, "len": 2 * math.pi * r})
    return out


# ----------------------------------------------------------------------------- request generators
def pt(rng, lo=-40, hi=40):
    return [round(rng.uniform(lo, hi), 2), round(rng.uniform(lo, hi), 2), round(rng.uniform(-5, 5), 2)]


def gen(rng, shape=None, allow_tiny=True):
    shape = shape or rng.choice(["arc", "arc", "arc_radius", "circle", "helix", "spiral", "thread", "spline", "polyline", "parametric", "mixed"])
    res = rng.choice([0.5, 1.0, 2.0])
    ccw = rng.random() < 0.5
    s = pt(rng) if rng.random() < 0.85 else [0.0, 0.0, 0.0]
    req = {"shape": shape, "res": res, "ccw": ccw, "start": s, "turns": 1, "warm": rng.random() < 0.3}
    if rng.random() < 0.3:
        req["feed"] = rng.choice([600.0, 3000.0, 12000.0, 30000.0])
    if shape in ("arc", "arc_radius", "circle", "helix") and rng.random() < 0.2:
        # the curve traced in a work frame rotated about Z (added after seed C12h: a resolution "compensated" for the active
        # transform): segment lengths, radii and sweeps are those of the request, seen through the rotation
        req["rot"] = rng.choice([30.0, 45.0, 60.0, 90.0, 120.0, -45.0])
        req["warm"] = False
    sgn = 1.0 if ccw else -1.0
    tiny = allow_tiny and shape in ("arc", "arc_radius", "helix") and rng.random() < 0.12
    if tiny:
        # a curve much shorter than the resolution (added after seed C10e: no samples at all, the target never reached):
        # it still has to end on its target
        r = rng.uniform(0.3, 3.0) * res
        a0 = rng.uniform(-math.pi, math.pi)
        c = [s[0] - r * math.cos(a0), s[1] - r * math.sin(a0), s[2]]
        sweep = rng.choice([0.02, 0.05, 0.2]) * res / r
        a1 = a0 + sgn * sweep
        t = [c[0] + r * math.cos(a1), c[1] + r * math.sin(a1), s[2]]
        req.update(shape="arc", target=t, center=c, centers=[c], r=r, hasz=False, far=False, len=r * sweep)
        return req
    if allow_tiny and shape == "arc" and rng.random() < 0.2:
        # a fillet: an arc only 1-5 resolutions long on a radius of a few resolutions (added after seed C12g: a rounded
        # division count made one segment up to 1.45 resolutions long on such paths only)
        r = rng.uniform(2.0, 6.0) * res
        ratio = rng.uniform(1.1, 4.9)
        a0 = rng.uniform(-math.pi, math.pi)
        c = [s[0] - r * math.cos(a0), s[1] - r * math.sin(a0), s[2]]
        sweep = min(ratio * res / r, 2 * math.pi - 0.2)
        a1 = a0 + sgn * sweep
        t = [c[0] + r * math.cos(a1), c[1] + r * math.sin(a1), s[2]]
        # far=False: the angular clauses of C10 (sweep, direction) are built for radii of at least four resolutions; on these
        # small radii their fixed-point angles are too coarse (a false alarm in the thorough tier showed it). End point, radius
        # and the segment-length clauses of C12 -- what the fillets are for -- are judged.
        req.update(target=t, center=c, centers=[c], r=r, hasz=False, far=False, len=r * sweep)
        return req
    if shape in ("arc", "circle"):
        r = rng.uniform(4 * res, 45)
        a0 = rng.uniform(-math.pi, math.pi)
        c = [s[0] - r * math.cos(a0), s[1] - r * math.sin(a0), s[2]]
        if rng.random() < 0.5:
            # the centre offset as a user writes it: short decimals (added after seed C10g: start + offset is then inexact, and
            # the start vector is no longer bit-for-bit the target vector of a closed curve)
            dec = rng.choice([1, 1, 2])
            off = [round(c[0] - s[0], dec), round(c[1] - s[1], dec)]
            if off[0] != 0.0 and off[1] != 0.0 and math.hypot(*off) >= 4 * res:
                req["off"] = off
                c = [s[0] + off[0], s[1] + off[1], s[2]]
                r = math.hypot(*off)
                a0 = math.atan2(s[1] - c[1], s[0] - c[0])
        if shape == "circle":
            t = list(s)
            sweep = 2 * math.pi
        else:
            sweep = rng.uniform(0.15, 2 * math.pi - 0.15) if rng.random() < 0.85 else rng.choice([math.pi / 2, math.pi, 3 * math.pi / 2])
            a1 = a0 + sgn * sweep
            t = [c[0] + r * math.cos(a1), c[1] + r * math.sin(a1), s[2]]
        if rng.random() < 0.25:
            req["cz"] = rng.choice([-5.0, 2.5, round(rng.uniform(-8, 8), 2)]) or 1.0
        hasz = shape == "arc" and rng.random() < 0.4
        if hasz:
            # a target height of exactly 0 now and then (added after seed C11f: "no Z given" tested by truthiness)
            t[2] = 0.0 if (s[2] != 0.0 and rng.random() < 0.3) else s[2] + rng.uniform(-10, 10)
        req.update(target=t, center=c, centers=[c], r=r, hasz=hasz, far=True, len=math.hypot(r * sweep, t[2] - s[2]))
    elif shape == "arc_radius":
        r = rng.uniform(4 * res, 45)
        d = rng.uniform(0.3 * r, 1.9 * r)
        ang = rng.uniform(-math.pi, math.pi)
        t = [s[0] + d * math.cos(ang), s[1] + d * math.sin(ang), s[2]]
        hasz = rng.random() < 0.3
        if hasz:
            t[2] = s[2] + rng.uniform(-5, 5)
        h = math.sqrt(max(r * r - d * d / 4, 0.0))
        mx, my = (s[0] + t[0]) / 2, (s[1] + t[1]) / 2
        px, py = -(t[1] - s[1]) / d, (t[0] - s[0]) / d
        cands = [[mx + h * px, my + h * py, s[2]], [mx - h * px, my - h * py, s[2]]]
        positive = rng.random() < 0.5
        minor_angle = 2 * math.asin(min(1.0, d / (2 * r)))
        sweep = minor_angle if positive else 2 * math.pi - minor_angle
        req.update(target=t, radius=r if positive else -r, centers=cands, r=r, hasz=hasz, far=True,
                   minor="minor" if positive else "major", len=math.hypot(r * sweep, t[2] - s[2]))
    elif shape == "helix":
        r0 = rng.uniform(5 * res, 30)
        r1 = rng.uniform(5 * res, 30) if rng.random() < 0.7 else r0
        a0 = rng.uniform(-math.pi, math.pi)
        c = [s[0] - r0 * math.cos(a0), s[1] - r0 * math.sin(a0), s[2]]
        base = rng.uniform(0.2, 2 * math.pi - 0.2)
        a1 = a0 + sgn * base
        t = [c[0] + r1 * math.cos(a1), c[1] + r1 * math.sin(a1), 0.0 if (s[2] != 0.0 and rng.random() < 0.25) else s[2] + rng.uniform(-8, 8)]
        turns = rng.choice([1, 1, 2, 3, 4])
        # a constant-radius helix is a constant-speed shape (C12): its length is known in closed form
        total = base + 2 * math.pi * (turns - 1)
        req.update(target=t, center=c, centers=[c], r=r0, turns=turns, far=True, cr=(r1 == r0),
                   len=math.hypot(r0 * total, t[2] - s[2]) if r1 == r0 else 0.0)
    elif shape == "mixed":
        n = rng.randint(3, 7)
        pts, prev, ops = [], s, []
        for _ in range(n):
            p = [round(prev[0] + rng.uniform(-20, 20), 2), round(prev[1] + rng.uniform(-20, 20), 2), round(prev[2] + rng.uniform(-4, 4), 2)]
            op = rng.choice(["move", "rapid", "move_absolute", "rapid_absolute", "ctx_abs", "ctx_rel", "ctx_switch", "move_part", "rapid_part",
                             "refused_abs"])
            if op.endswith("_part"):
                keep = rng.choice([(0,), (1,), (2,), (0, 1), (0, 2)])
                p = [p[i] if i in keep else prev[i] for i in range(3)]
            pts.append(p)
            ops.append(op)
            prev = p
        req.update(target=pts[-1], controls=pts, ops=ops)
        if rng.random() < 0.4:
            # a rotated work frame; move_absolute() / rapid_absolute() are documented to BYPASS transforms (machine coordinates),
            # so they are not part of "the same logical toolpath" there and are replaced by plain moves
            req["rot"] = rng.choice([30.0, 45.0, 90.0, -60.0, 120.0, 200.0])
            req["ops"] = [{"move_absolute": "move", "rapid_absolute": "rapid"}.get(o, o) for o in ops]
    elif shape == "parametric":
        # an elliptic / Lissajous-like user curve given in absolute coordinates, starting at or away from the tool position
        a, b = rng.uniform(5 * res, 25), rng.uniform(5 * res, 25)
        k = rng.choice([0.25, 0.5, 0.75, 1.0])
        h = rng.choice([0.0, 0.0, rng.uniform(-6, 6)])
        on_curve = rng.random() < 0.4
        c = [s[0] - a, s[1], s[2]] if on_curve else [s[0] + rng.uniform(-15, 15), s[1] + rng.uniform(-15, 15), s[2] + rng.choice([0.0, 2.0])]
        t = [c[0] + a * math.cos(2 * math.pi * k), c[1] + b * math.sin(2 * math.pi * k), c[2] + h]
        n = 400
        pts = [(c[0] + a * math.cos(2 * math.pi * k * i / n), c[1] + b * math.sin(2 * math.pi * k * i / n), c[2] + h * i / n) for i in range(n + 1)]
        ln = sum(math.dist(pts[i], pts[i + 1]) for i in range(n))
        req.update(target=t, center=c, centers=[c], r=0.0, pc=c, pa=a, pb=b, pk=k, ph=h, len=ln, far=False)
        if h == 0.0 and rng.random() < 0.6:
            c[2] = 0.0
            t[2] = 0.0
            req.update(planar=True, target=t, center=c, centers=[c], pc=c)
    elif shape == "spiral":
        r1 = rng.uniform(6 * res, 30)
        a1 = rng.uniform(-math.pi, math.pi)
        t = [s[0] + r1 * math.cos(a1), s[1] + r1 * math.sin(a1), s[2] + rng.uniform(-3, 3)]
        req.update(target=t, center=list(s), centers=[list(s)], r=0.0, turns=rng.choice([1, 2, 3]), far=False)
    elif shape == "thread":
        d = rng.uniform(8 * res, 40)
        ang = rng.uniform(-math.pi, math.pi)
        dz = rng.choice([-1, 1]) * rng.uniform(1, 12)
        t = [s[0] + d * math.cos(ang), s[1] + d * math.sin(ang), s[2] + dz]
        pitch = rng.choice([1.0, 2.0, 3.5])
        c = [(s[0] + t[0]) / 2, (s[1] + t[1]) / 2, s[2]]
        req.update(target=t, pitch=pitch, center=c, centers=[c], r=d / 2, turns=max(1, int(abs(dz) / pitch)), far=True)
    else:
        n = rng.randint(2, 6)
        pts, prev = [], s
        # waypoints with structure (added after seed C11b: a polyline through the origin): the origin itself, points on
        # an axis or a coordinate plane, and the start of the path again -- values a test on the converted vertex mistakes
        special = rng.random() < 0.5
        steep = rng.random() < 0.25      # mostly vertical zig-zag (added after seed C10f: curve length measured in XY only)
        for _ in range(n):
            while True:
                p = [round(prev[0] + rng.uniform(-25, 25), 2), round(prev[1] + rng.uniform(-25, 25), 2), round(prev[2] + rng.uniform(-4, 4), 2)]
                if steep:
                    p = [round(prev[0] + rng.uniform(-1.5, 1.5), 2), round(prev[1] + rng.uniform(-1.5, 1.5), 2),
                         round(prev[2] + rng.choice([-1, 1]) * rng.uniform(8, 20), 2)]
                    break
                if special:
                    k = rng.randrange(6)
                    p = [[0.0, 0.0, 0.0], [p[0], 0.0, 0.0], [0.0, p[1], 0.0], [0.0, 0.0, p[2]], list(s), [p[0], p[1], 0.0]][k]
                if math.dist(p, prev) >= 4 * res:
                    break
            pts.append(p)
            prev = p
        req.update(target=pts[-1], controls=pts)
        if not steep and rng.random() < 0.5:
            # some waypoints stay at the height of the one before and are written with two components
            flat, prev = [], s
            for p in pts:
                f = rng.random() < 0.5
                if f:
                    p[2] = prev[2]
                flat.append(f)
                prev = p
            req.update(flat=flat, target=pts[-1])
    return req


def units_event(rng):
    """set_length_units() between the two systems: the resolution before and after, in 10^-6 of the respective unit."""
    from gscrib import GCodeBuilder
    g = GCodeBuilder(output=None)
    per = {"millimeters": 10, "inches": 254}           # tenths of a millimetre per unit
    a, b = rng.choice([("millimeters", "inches"), ("inches", "millimeters")])
    if a == "inches":
        g.set_length_units("inches")
    r0 = rng.choice([0.1, 0.5, 1.0, 0.25, 2.0, 0.02])
    g.set_resolution(r0)
    if rng.random() < 0.35:
        # the device link fails on the G20/G21 statement and the caller repeats the call (added after seed C12f: the
        # resolution was rescaled before the write and the units recorded after it -- rescaled twice on the retry)
        from gscrib.excepts import DeviceError
        from gscrib.writers import BaseWriter
        armed = [True]

        class _F(BaseWriter):
            def connect(self):
                return self

            def disconnect(self, wait=True):
                pass

            def write(self, statement):
                if armed[0]:
                    armed[0] = False
                    raise DeviceError("link failed on this statement")

            def flush(self):
                pass
        g.add_writer(_F())
        try:
            g.set_length_units(b)
        except DeviceError:
            pass
    g.set_length_units(b)
    r1 = g.state.resolution
    ev = record({"shape": "polyline", "res": 1.0, "ccw": True, "start": [0.0, 0.0, 0.0], "target": [1.0, 0.0, 0.0], "controls": [[1.0, 0.0, 0.0]]})
    ev.update(shape="units", r=int(round(r0 * 1e6)), len=int(round(r1 * 1e6)), turns=per[a], res=per[b], linesA=[], linesR=[], linesH=[])
    return ev
