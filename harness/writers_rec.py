"""Recorder for C14: real builder, real FileWriter objects on scratch files and
in-memory streams, custom BaseWriter subclasses. After every action the content
of every output is read back (files through a second handle)."""
import logging
import io
import os
import shutil
import tempfile

from .common import workdir


class WSession:
    def __init__(self, kinds, eol="\n", raw=False):
        from gscrib import GCodeBuilder
        from gscrib.writers import BaseWriter, FileWriter
        self.kinds = list(kinds)
        self.eol = eol
        self.dir = tempfile.mkdtemp(prefix="c14_", dir=workdir())
        # the ending is configured either in its escaped spelling ("\\r\\n") or as the real characters (raw; added after seed C08g)
        self.g = GCodeBuilder(line_endings=eol if raw else {"\n": "\\n", "\r\n": "\\r\\n", "\r": "\\r"}[eol])
        try:
            while True:
                self.g.remove_writer(self.g.get_writer(0))
        except IndexError:
            pass
        self.writers, self.backing, self.disc = [], [], []
        self.closed = {}
        self.userfiles = []
        for i, k in enumerate(self.kinds):
            if k == "path":
                path = os.path.join(self.dir, "sub%d" % i, "out%d.gcode" % i)
                self.writers.append(FileWriter(path))
                self.backing.append(path)
            elif k == "binary":
                s = io.BytesIO()
                self.writers.append(FileWriter(s))
                self.backing.append(s)
            elif k == "text":
                s = io.StringIO(newline="")
                self.writers.append(FileWriter(s))
                self.backing.append(s)
            elif k in ("ufile_b", "ufile_t"):
                # a real (buffered) file the user opened themselves and handed to a FileWriter; read back through a second handle
                path = os.path.join(self.dir, "user%d.gcode" % i)
                fh = open(path, "wb") if k == "ufile_b" else open(path, "w", newline="", encoding="utf-8")
                self.userfiles.append(fh)
                self.writers.append(FileWriter(fh))
                self.backing.append(path)
            elif k in ("console_b", "console_t", "console_e"):
                # the bundled ConsoleWriter, constructed while stdout / stderr is a capturing stand-in (a binary buffer behind
                # .buffer, or a text stream without one); it keeps that file for its lifetime
                import sys
                from gscrib.writers import ConsoleWriter
                cap = io.StringIO(newline="") if k == "console_t" else io.BytesIO()
                stand_in = cap if k == "console_t" else type("Std", (), {"buffer": cap})()
                name = "stderr" if k == "console_e" else "stdout"
                saved = getattr(sys, name)
                setattr(sys, name, stand_in)
                try:
                    self.writers.append(ConsoleWriter(stderr=(k == "console_e")))
                finally:
                    setattr(sys, name, saved)
                self.backing.append(cap)
            elif k == "log":
                # the bundled LogWriter: every LogWriter logs to the same module logger, so one per session; a handler of the
                # session renders each record as its message and a newline
                import logging
                from gscrib.writers import LogWriter
                logging.disable(logging.NOTSET)
                w = LogWriter()
                w.set_level("info")
                chunks = []

                class _H(logging.Handler):
                    def __init__(self, sink):
                        super().__init__()
                        self.sink = sink          # bound here: the loop variable is reused by later writers

                    def emit(self, record):
                        self.sink.append(record.getMessage().encode("utf-8") + b"\n")
                h = _H(chunks)
                w.get_logger().addHandler(h)
                self.log_cleanup = (w.get_logger(), h, w.get_logger().propagate)
                w.get_logger().propagate = False
                self.writers.append(w)
                self.backing.append(chunks)
            else:
                chunks = []
                self.writers.append(self._custom(BaseWriter, chunks, i))
                self.backing.append(chunks)
            self.disc.append(0)
        self.events = []

    def _custom(self, BaseWriter, chunks, idx):
        sess = self

        class _W(BaseWriter):
            def connect(self):
                return self

            def disconnect(self, wait=True):
                sess.disc[idx] += 1

            def write(self, statement):
                # keeps the very object it is handed, as a queueing writer would (added after seed C14j: one reused mutable
                # buffer passed to every writer); what it holds is read later
                chunks.append(statement)

            def flush(self):
                pass
        return _W()

    def observe(self):
        out = []
        for i, (k, b) in enumerate(zip(self.kinds, self.backing)):
            if i in self.closed:
                out.append(self.closed[i])
            elif k in ("path", "ufile_b", "ufile_t"):
                try:
                    with open(b, "rb") as fh:
                        out.append(list(fh.read()))
                except FileNotFoundError:
                    out.append([])
            elif k in ("binary", "console_b", "console_e"):
                out.append(list(b.getvalue()))
            elif k in ("text", "console_t"):
                out.append(list(b.getvalue().encode("utf-8")))
            else:
                out.append(list(b"".join(bytes(x) for x in b)))
        return out

    def nreg(self):
        n = 0
        try:
            while True:
                self.g.get_writer(n)
                n += 1
        except IndexError:
            return n

    def apply(self, d):
        g, act = self.g, d["act"]
        out, data, unenc = "ok", b"", False
        try:
            if act == "add":
                g.add_writer(self.writers[d["w"] - 1])
            elif act == "remove":
                g.remove_writer(self.writers[d["w"] - 1])
            elif act == "write":
                try:
                    d["text"].encode("utf-8")
                except UnicodeEncodeError:
                    # a statement with no UTF-8 form (a lone surrogate, e.g. from os.fsdecode): it cannot be delivered "as the
                    # same UTF-8 bytes", so the only conforming outcome is a refusal that reaches no writer (added after seed C14k)
                    unenc = True
                if unenc:
                    logging.disable(logging.ERROR)        # the library logs the refusal with a traceback: keep the check's output readable
                    try:
                        (g.comment if d.get("comment") else g.write)(d["text"])
                    finally:
                        logging.disable(logging.NOTSET)
                elif d.get("comment"):
                    data = ("; " + d["text"]).rstrip().encode("utf-8") + self.eol.encode()
                    g.comment(d["text"])
                else:
                    data = d["text"].rstrip().encode("utf-8") + self.eol.encode()
                    g.write(d["text"])
            elif act == "close_stream":
                # the USER closes a stream they had handed to a FileWriter (it is theirs); what it held is remembered here
                w = d["w"] - 1
                if self.kinds[w] in ("binary", "text") and w not in self.closed:
                    b = self.backing[w]
                    self.closed[w] = list(b.getvalue()) if self.kinds[w] == "binary" else list(b.getvalue().encode("utf-8"))
                    b.close()
            elif act == "flush":
                g.flush()
            elif act == "teardown":
                if d.get("nowait"):
                    g.teardown(wait=False)        # "do not wait for pending operations": a file output still has to hold its lines
                else:
                    g.teardown()
            else:
                raise KeyError(act)
        except Exception as e:
            out = type(e).__name__
        ev = {"act": act, "w": d.get("w", 0), "data": list(data), "out": out, "unenc": unenc, "obs": self.observe(),
              "nreg": self.nreg(), "disc": list(self.disc)}
        self.events.append(ev)
        return ev

    def finish(self, meta=None):
        try:
            self.g.teardown()
        except Exception:
            pass
        for fh in self.userfiles:
            try:
                fh.close()
            except Exception:
                pass
        if getattr(self, "log_cleanup", None):
            lg, h, prop = self.log_cleanup
            lg.removeHandler(h)
            lg.propagate = prop
        shutil.rmtree(self.dir, ignore_errors=True)
        m = {"kinds": ["ufile" if k.startswith("ufile") else "console" if k.startswith("console") else k for k in self.kinds],
             "eol": list(self.eol.encode())}
        if meta:
            m.update(meta)
        return {"meta": m, "ev": self.events}


TEXTS = ["G1 X1", "G0 Z5 ", "M3 S100", "T1 M6", "G1 X1 Y2 ; café", "über 中文", "note ", "G4 P1", "", "  "]   # also: an empty statement (a blank separator line)


def run_descs(descs, kinds, eol="\n", meta=None, raw=False):
    s = WSession(kinds, eol, raw)
    for d in descs:
        s.apply(d)
    return s.finish(meta)
