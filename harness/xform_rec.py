"""Recorder / drivers for the transform state machine (C13): public API of
CoordinateTransformer through a real GCodeCore, real context managers."""
import math
import random

U = 10000
PROBES = [(0.0, 0.0, 0.0), (1.0, 0.0, 0.0), (0.0, 1.0, 0.0), (0.0, 0.0, 1.0), (3.0, -2.0, 5.0)]


def qi(x):
    return int(round(x * U))


def q3(p):
    return [qi(c) for c in p]


class XSession:
    def __init__(self, exact=True):
        from gscrib import GCodeCore
        self.g = GCodeCore(output=None)
        self.t = self.g.transform
        self.exact = exact
        self.cms = []
        self.pivot = (0.0, 0.0, 0.0)
        self.events = []
        self.init = [q3(self.t.apply_transform(p)) for p in PROBES]

    def _probes(self):
        out = []
        for p in PROBES:
            q = self.t.apply_transform(p)
            r = self.t.reverse_transform(q)
            out.append({"p": q3(p), "q": q3(q), "r": q3(r)})
        return out

    def apply(self, d):
        t, c = self.t, d["call"]
        a = {"v": [0, 0, 0], "axis": "z", "k": 0, "plane": "xy", "n": 1, "name": d.get("name", "A"), "P": [0, 0, 0], "ang5": 0, "sv4": [0, 0, 0]}
        out = "ok"
        pv = {"has": False, "y": [0, 0, 0], "P": [0, 0, 0]}
        x0 = None
        if c in ("rotate", "scale") and self.pivot is not None:
            try:
                x0 = t.reverse_transform(self.pivot)
            except Exception:
                x0 = None
        try:
            if c == "translate":
                a["v"] = q3(d["v"])
                t.translate(*d["v"])
            elif c == "rotate":
                a["axis"], a["k"] = d["axis"], int(round(d["angle"] / 90.0)) % 4
                a["ang5"] = int(round(math.radians(d["angle"]) * 1e5)) % 628319
                t.rotate(d["angle"], d["axis"])
            elif c == "scale":
                v = list(d["v"])
                full = v * 3 if len(v) == 1 else v + [1.0] * (3 - len(v))
                a["v"] = [int(x) if float(x).is_integer() else 0 for x in full[:3]]
                a["sv4"] = [int(round(float(x) * 10000)) for x in full[:3]] if len(v) <= 3 and all(abs(float(x)) < 1000 for x in full[:3]) else [0, 0, 0]
                t.scale(*v)
            elif c == "mirror":
                a["plane"] = d["plane"]
                t.mirror(d["plane"])
            elif c == "reflect":
                n = d["normal"]
                a["n"] = 1 + max(range(3), key=lambda i: abs(n[i]))
                t.reflect(list(n))
            elif c == "set_pivot":
                a["P"] = q3(d["P"])
                t.set_pivot(tuple(d["P"]))
                self.pivot = tuple(d["P"])
            elif c == "save":
                t.save_state()
            elif c == "save_named":
                t.save_state(d["name"])
            elif c == "restore":
                self.pivot = None
                t.restore_state()
            elif c == "restore_named":
                self.pivot = None
                t.restore_state(d["name"])
            elif c == "delete":
                t.delete_state(d["name"])
            elif c == "ctx_create":
                # the context manager object is made now and entered later: what it puts back on exit is the transform
                # and stack in effect ON ENTRY (added after seed C13f: the state was copied when the method was called)
                self.pending_cm = self.g.current_transform()
            elif c == "ctx_enter":
                cm = getattr(self, "pending_cm", None) or self.g.current_transform()
                self.pending_cm = None
                cm.__enter__()
                self.cms.append(cm)
            elif c == "ctx_named_enter":
                cm = self.g.named_transform(d["name"])
                cm.__enter__()          # KeyError here means the block is not entered
                self.cms.append(cm)
                self.pivot = None
            elif c in ("ctx_exit", "ctx_exit_raised"):
                cm = self.cms.pop()
                self.pivot = None
                if c == "ctx_exit_raised":
                    if cm.__exit__(RuntimeError, RuntimeError("body raised"), None):
                        raise AssertionError("context manager swallowed the exception")
                else:
                    cm.__exit__(None, None, None)
            else:
                raise KeyError(c)
        except Exception as e:
            out = type(e).__name__
        if x0 is not None and out == "ok" and self.pivot is not None:
            y = t.apply_transform(x0)
            pv = {"has": True, "y": q3(y), "P": q3(self.pivot)}
        ev = {"call": c, "a": a, "out": out, "probes": self._probes(), "pv": pv}
        self.events.append(ev)
        return ev

    def close(self):
        while self.cms:
            self.apply({"call": "ctx_exit"})

    def trace(self, meta=None):
        m = {"exact": self.exact, "U": U}
        if meta:
            m.update(meta)
        return {"meta": m, "init": self.init, "ev": self.events}


NAMES = ["A", "B", "C"]


def random_descs(rng, n, exact):
    out = []
    depth = 0
    for _ in range(n):
        x = rng.random()
        if x < 0.45:
            k = rng.choice(["translate", "rotate", "scale", "mirror", "reflect"])
            if k in ("rotate", "scale") and rng.random() < 0.6:
                P = [float(rng.randint(-3, 3)) for _ in range(3)] if exact else [rng.uniform(-5, 5) for _ in range(3)]
                out.append({"call": "set_pivot", "P": P})
            if k == "translate":
                v = [float(rng.randint(-3, 3)) for _ in range(3)] if exact else [rng.uniform(-5, 5) for _ in range(3)]
                out.append({"call": k, "v": v})
            elif k == "rotate":
                ang = float(rng.choice([90, 180, 270, -90, 450])) if exact else rng.uniform(-360, 360)
                out.append({"call": k, "angle": ang, "axis": rng.choice("xyz")})
            elif k == "scale":
                if exact:
                    v = rng.choice([[2.0], [-1.0], [2.0, -1.0], [1.0, 2.0, -1.0], [-1.0, -1.0, 2.0]])
                else:
                    v = [rng.choice([-1, 1]) * rng.uniform(0.5, 2.0) for _ in range(rng.randint(1, 3))]
                if rng.random() < 0.05:
                    v = rng.choice([[0.0], [1.0, 0.0], [1.0, 1.0, 1.0, 1.0]])
                out.append({"call": k, "v": v})
            elif k == "mirror":
                out.append({"call": k, "plane": rng.choice(["xy", "yz", "zx"])})
            else:
                if exact:
                    n3 = [0.0, 0.0, 0.0]
                    n3[rng.randint(0, 2)] = rng.choice([1.0, -2.0])
                else:
                    n3 = [rng.uniform(-1, 1) for _ in range(3)]
                if rng.random() < 0.05:
                    n3 = [0.0, 0.0, 0.0]
                out.append({"call": k, "normal": n3})
        elif x < 0.55:
            out.append({"call": "save"})
        elif x < 0.65:
            out.append({"call": "restore"})
        elif x < 0.73:
            out.append({"call": "save_named", "name": rng.choice(NAMES)})
        elif x < 0.83:
            out.append({"call": "restore_named", "name": rng.choice(NAMES)})
        elif x < 0.87:
            out.append({"call": "delete", "name": rng.choice(NAMES)})
        elif x < 0.93 and depth < 3:
            depth += 1
            if rng.random() < 0.6:
                if rng.random() < 0.35:
                    v = [float(rng.randint(-3, 3)) for _ in range(3)] if exact else [rng.uniform(-5, 5) for _ in range(3)]
                    out += [{"call": "ctx_create"}, {"call": "translate", "v": v}, {"call": "save"}]
                out.append({"call": "ctx_enter"})
            else:
                out.append({"call": "ctx_named_enter", "name": rng.choice(NAMES)})
        elif depth > 0:
            depth -= 1
            out.append({"call": rng.choice(["ctx_exit", "ctx_exit_raised"])})
        else:
            out.append({"call": "set_pivot", "P": [float(rng.randint(-3, 3)) for _ in range(3)]})
    return out


ANGLES = [0.5, -0.75, 90.25, 180.5, 270.75, 30.5, 45.0, 12.3, 359.5, -0.25, 89.5, 1.0, 100.0, 179.99, -135.0, 60.0, 0.01, 450.5]


def rotation_descs(rng):
    """A history whose first linear operation is one rotation by an arbitrary angle (C13_Angle reads it off directly)."""
    out = []
    if rng.random() < 0.6:
        out.append({"call": "translate", "v": [rng.uniform(-5, 5) for _ in range(3)]})
    if rng.random() < 0.6:
        out.append({"call": "set_pivot", "P": [rng.uniform(-5, 5) for _ in range(3)]})
    ang = rng.choice(ANGLES) if rng.random() < 0.7 else rng.uniform(-360, 360)
    out.append({"call": "rotate", "angle": ang, "axis": rng.choice("xyz")})
    if rng.random() < 0.5:
        out.append({"call": "translate", "v": [rng.uniform(-5, 5) for _ in range(3)]})
    return out


# anamorphic factors, among them volume-preserving ones (|det| = 1 without being a rotation; added after seed C04h)
SCALES = [[2.0, 1.0, 0.5], [4.0, 0.25, 1.0], [0.5, 2.0], [-2.0, 0.5, 1.0], [1.25, 0.8], [2.0, 0.5, -1.0], [0.5, 0.5, 4.0],
          [3.0, 1.5, 0.5], [0.1, 10.0, 1.0], [2.0], [0.5], [1.5, 1.0, 1.0]]


def scale_descs(rng):
    """A history whose first linear operation is one scaling by given factors (C13_Scale reads it off directly)."""
    out = []
    if rng.random() < 0.6:
        out.append({"call": "translate", "v": [rng.uniform(-5, 5) for _ in range(3)]})
    if rng.random() < 0.6:
        out.append({"call": "set_pivot", "P": [rng.uniform(-5, 5) for _ in range(3)]})
    v = list(rng.choice(SCALES)) if rng.random() < 0.8 else [rng.choice([-1, 1]) * round(rng.uniform(0.3, 3.0), 2) for _ in range(rng.randint(1, 3))]
    out.append({"call": "scale", "v": v})
    if rng.random() < 0.5:
        out.append({"call": "translate", "v": [rng.uniform(-5, 5) for _ in range(3)]})
    return out


def run_descs(descs, exact, meta=None):
    s = XSession(exact)
    for d in descs:
        if d["call"] in ("ctx_exit", "ctx_exit_raised") and not s.cms:
            continue
        ev = s.apply(d)
        # a named context that failed to enter leaves nothing to exit
    s.close()
    return s.trace(meta)


def desc_from_last(last):
    """TransformImpl `last` record -> call descriptor."""
    c, a = last["call"], last["a"]
    if c == "translate":
        return {"call": c, "v": [float(x) for x in a["v"]]}
    if c == "rotate":
        return {"call": c, "angle": 90.0 * a["k"], "axis": a["axis"]}
    if c == "scale":
        return {"call": c, "v": [float(x) for x in a["v"]]}
    if c == "mirror":
        return {"call": c, "plane": a["plane"]}
    if c == "reflect":
        n = [0.0, 0.0, 0.0]
        n[a["n"] - 1] = 1.0
        return {"call": c, "normal": n}
    if c == "set_pivot":
        return {"call": c, "P": [float(x) for x in a["P"]]}
    if c in ("save_named", "restore_named", "delete", "ctx_named_enter"):
        return {"call": c, "name": last["name"]}
    return {"call": c}
