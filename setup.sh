#!/bin/sh
# Offline setup: parse every specification and byte-compile the harness. Nothing is installed.
cd "$(dirname "$0")" || exit 2
set -e
for f in specs/*.tla; do
  case "$f" in *Trace.tla) ;; esac
  (cd specs && tla-sany "$(basename "$f")" >/dev/null) || { echo "SANY failed on $f"; exit 1; }
done
/venv/bin/python -m compileall -q harness
mkdir -p evidence .work
echo "setup ok"
