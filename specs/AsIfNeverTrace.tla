--------------------------- MODULE AsIfNeverTrace ---------------------------
(***************************************************************************)
(* C05, last sentence: "Later calls therefore behave as if the rejected     *)
(* call had never been made."  Decided differentially on real executions:   *)
(* a recorded history H is run again on a fresh builder WITHOUT its refused  *)
(* calls (those that raised and emitted nothing); every other call must then *)
(* do exactly what it did in H -- same outcome, same emitted lines, same     *)
(* public snapshot afterwards.  A record holds the two sequences of events   *)
(* restricted to the calls both runs made:                                   *)
(*     a[i]   the i-th kept call as it behaved in H (refused calls between)  *)
(*     b[i]   the same call in the run that never made the refused ones      *)
(* Any state a refused call leaks -- tracked or not -- shows up as the first *)
(* index where the two differ.                                               *)
(***************************************************************************)
EXTENDS Integers, Sequences, Json, IOUtils, TLC

Traces == JsonDeserialize(IOEnv.TRACE_FILE)
VARIABLES tid, done
vars == <<tid, done>>

Same(x, y) == x.call = y.call /\ x.out = y.out /\ x.lines = y.lines /\ x.rep = y.rep
FirstDiff(T) ==
  IF Len(T.a) # Len(T.b) THEN 0
  ELSE LET bad == {i \in DOMAIN T.a : ~Same(T.a[i], T.b[i])} IN
       IF bad = {} THEN -1 ELSE CHOOSE i \in bad : \A j \in bad : i <= j

Init == tid \in 1..Len(Traces) /\ done = FALSE
Check ==
  /\ ~done
  /\ LET T == Traces[tid]  d == FirstDiff(T) IN
       /\ IF d # -1 THEN PrintT(<<"F", tid, d, "C05_AsIfNever", "">>) ELSE TRUE
       /\ PrintT(<<"D", tid, Len(T.a), T.nrefused>>)
  /\ done' = TRUE /\ UNCHANGED tid
Spec == Init /\ [][Check]_vars
=============================================================================
