------------------------------ MODULE Builder ------------------------------
(***************************************************************************)
(* Contract of the state-tracked G-code builder (properties C01, C02, C03, *)
(* C05, C06, C07, C20 and the end-to-end part of C04).  Every clause is an *)
(* operator over ONE recorded public call:                                  *)
(*    e   the event  [call, out, a (arguments), lines, rep, hooks]          *)
(*    p   the public snapshot before the call (rep of the previous event)   *)
(*    m   the interpreter state before the call's lines                      *)
(*    m2  the interpreter state after them  (Machine!Exec)                   *)
(*    M   trace meta data [dp, U, exact, xf]                                 *)
(*    sb  which API last started the tool ("none" | "tool_on" | "power_on") *)
(* The same operators are used (a) as invariants / action properties of    *)
(* the implementation-shaped model BuilderImpl and (b) by BuilderTrace on   *)
(* recorded executions of the real code.                                    *)
(*                                                                          *)
(* Numbers are q-records [k, v, s, t]: k kind, v nearest integer in trace   *)
(* units, s exact sign of the remainder, t "close to a rounding tie".       *)
(***************************************************************************)
EXTENDS Machine

Abs(x) == IF x < 0 THEN -x ELSE x
AxIdx  == [X |-> 1, Y |-> 2, Z |-> 3]
AxSeq  == <<"X", "Y", "Z">>

IsNum(q)     == q.k = "n"
Given(q)     == q.k # "none"
NonFinite(q) == q.k \in {"nan", "pinf", "ninf"}
IsNaN(q)     == q.k = "nan"
\* exact order of a q-record against a number B on the unit grid
QLt(q, B) == \/ q.k = "ninf" \/ (q.k = "big" /\ q.s < 0)
             \/ (q.k = "n" /\ (q.v < B \/ (q.v = B /\ q.s < 0)))
QGt(q, B) == \/ q.k = "pinf" \/ (q.k = "big" /\ q.s > 0)
             \/ (q.k = "n" /\ (q.v > B \/ (q.v = B /\ q.s > 0)))
QOut(q, b) == b.set /\ (QLt(q, b.lo) \/ QGt(q, b.hi) \/ IsNaN(q))
QIn(q, b)  == ~QOut(q, b)
QNeg(q)    == QLt(q, 0)

\* a reported number equals an emitted word (which was rounded to the unit)
Near(q, v) == q.k = "n" /\ (q.v = v \/ (q.t /\ Abs(q.v - v) <= 1))
NearQ(q, w) == (q.k = w.k) /\ (q.k = "n" => (q.v = w.v \/ ((q.t \/ w.t) /\ Abs(q.v - w.v) <= 1)))

-----------------------------------------------------------------------------
(* Call vocabulary *)
MoveCalls      == {"move", "rapid"}
BypassCalls    == {"move_absolute", "rapid_absolute"}
MotionCalls    == MoveCalls \cup BypassCalls \cup {"probe"}
AxisCalls      == MotionCalls \cup {"set_axis", "auto_home"}
OffCalls       == {"tool_off", "power_off", "coolant_off", "emergency_halt"}
HaltCalls      == {"halt", "pause", "stop", "wait"}
ToolGuarded    == {"tool_on", "power_on", "tool_change"} \cup HaltCalls
CoolGuarded    == {"coolant_on", "tool_change"} \cup HaltCalls
TempCalls      == {"set_bed_temperature", "set_hotend_temperature", "set_chamber_temperature"}
TracerCalls    == {"trace_arc", "trace_arc_radius", "trace_circle", "trace_spline", "trace_helix",
                   "trace_thread", "trace_spiral", "trace_polyline"}
CtxCalls       == {"ctx_enter", "ctx_exit"}
HookCalls      == {"add_probe_hook", "remove_probe_hook", "add_extrusion_hook", "remove_extrusion_hook"}

ValidModes(call) ==
  CASE call = "tool_on"      -> {"clockwise", "counter"}
    [] call = "power_on"     -> {"constant", "dynamic"}
    [] call = "coolant_on"   -> {"mist", "flood"}
    [] call = "tool_change"  -> {"manual", "automatic"}
    [] call = "halt"         -> {"pause", "optional-pause", "end-without-reset", "end-with-reset",
                                 "pallet-exchange", "wait-for-bed", "wait-for-hotend",
                                 "wait-for-chamber", "wait-for-motion"}
    [] call \in {"set_distance_mode", "set_extrusion_mode", "ctx_enter"} -> {"absolute", "relative"}
    [] call = "probe"        -> {"towards", "towards-no-error", "away", "away-no-error"}
    [] call = "set_length_units" -> {"inches", "millimeters"}
    [] call = "set_plane"    -> {"xy", "zx", "yz"}
    [] call = "set_feed_mode"-> {"units/min", "units/rev", "1/time"}
    [] call = "set_time_units" -> {"seconds", "milliseconds"}
    [] call = "set_temperature_units" -> {"celsius", "kelvin"}
    [] call = "set_direction"-> {"clockwise", "counter"}
    [] call = "query"        -> {"position", "temperature"}
    [] OTHER                 -> {}
ModeCalls == {"tool_on", "power_on", "coolant_on", "tool_change", "halt", "set_distance_mode",
              "set_extrusion_mode", "probe", "set_length_units", "set_plane", "set_feed_mode",
              "set_time_units", "set_temperature_units", "set_direction", "query"}
BadMode(e) == e.call \in ModeCalls /\ e.a.mode \notin ValidModes(e.call)

-----------------------------------------------------------------------------
(* The target of a motion call in the builder's own coordinates, from the  *)
(* snapshot before the call and the arguments.  Returns per axis a record   *)
(* [k |-> "n"|"none"|"bad", v, fz]: fz = the value is a float sum and only *)
(* known to within one unit.                                                 *)
PosV(q) == IF q.k = "n" THEN q.v ELSE 0
Tgt(e, p, i, M) ==
  LET a == e.a.ax[i]  c == p.pos[i] IN
  IF NonFinite(a) THEN [k |-> "bad", q |-> a, fz |-> FALSE]
  ELSE IF e.call \in BypassCalls \cup {"set_axis"} THEN
       (IF Given(a) THEN [k |-> "n", q |-> a, fz |-> FALSE]
        ELSE IF c.k = "n" THEN [k |-> "n", q |-> c, fz |-> FALSE]
        ELSE [k |-> "none", q |-> c, fz |-> FALSE])
  ELSE IF p.rel THEN
       (IF Given(a) /\ ~(a.k = "n" /\ a.v = 0 /\ a.s = 0)
          THEN [k |-> "n", q |-> [k |-> "n", v |-> PosV(c) + a.v, s |-> 0, t |-> FALSE],
                fz |-> (~M.exact \/ a.s # 0 \/ (c.k = "n" /\ c.s # 0))]
          ELSE [k |-> "n", q |-> (IF c.k = "n" THEN c ELSE [k |-> "n", v |-> 0, s |-> 0, t |-> FALSE]), fz |-> FALSE])
  ELSE (IF Given(a) THEN [k |-> "n", q |-> a, fz |-> FALSE]
        ELSE [k |-> "n", q |-> (IF c.k = "n" THEN c ELSE [k |-> "n", v |-> 0, s |-> 0, t |-> FALSE]), fz |-> FALSE])

\* surely outside / surely inside the axes box on axis i
AxSureOut(e, p, i, M) ==
  LET t == Tgt(e, p, i, M)  b == p.bounds.axes IN
  b.set /\ t.k = "n" /\
    IF t.fz THEN (t.q.v < b.lo[i] - 1 \/ t.q.v > b.hi[i] + 1)
            ELSE (QLt(t.q, b.lo[i]) \/ QGt(t.q, b.hi[i]))
AxMaybeOut(e, p, i, M) ==
  LET t == Tgt(e, p, i, M)  b == p.bounds.axes IN
  \/ t.k = "bad"
  \/ b.set /\ t.k = "n" /\
       IF t.fz THEN (t.q.v < b.lo[i] + 1 \/ t.q.v > b.hi[i] - 1)
               ELSE (QLt(t.q, b.lo[i]) \/ QGt(t.q, b.hi[i]))

PowerBad(q, b) == NonFinite(q) \/ QNeg(q) \/ QOut(q, b.power)
FeedBad(q, b)  == NonFinite(q) \/ QNeg(q) \/ QOut(q, b.feed)
TempBound(e, b) ==
  CASE e.call = "set_bed_temperature" \/ (e.call = "halt" /\ e.a.mode = "wait-for-bed") -> b.bed
    [] e.call = "set_hotend_temperature" \/ (e.call = "halt" /\ e.a.mode = "wait-for-hotend") -> b.hotend
    [] e.call = "set_chamber_temperature" \/ (e.call = "halt" /\ e.a.mode = "wait-for-chamber") -> b.chamber
    [] OTHER -> [set |-> FALSE, lo |-> 0, hi |-> 0]
HaltTemp(e) == IF Given(e.a.S) THEN e.a.S ELSE e.a.R

(* MustRejectValue: a documented argument rule certainly applies.           *)
(* MayRejectValue : a documented argument rule possibly applies (equal to   *)
(* Must except inside the one-unit band of float sums).                      *)
ParamsBad(e, p, M) ==
  \/ Given(e.a.F) /\ FeedBad(e.a.F, p.bounds)
  \/ Given(e.a.S) /\ PowerBad(e.a.S, p.bounds)
  \/ NonFinite(e.a.E)

MustRejectValue(e, p, M) ==
  \/ BadMode(e)
  \/ e.call \in {"tool_on", "power_on"} /\ PowerBad(e.a.val, p.bounds)
  \/ e.call = "set_tool_power" /\ PowerBad(e.a.val, p.bounds)
  \/ e.call = "set_feed_rate" /\ FeedBad(e.a.val, p.bounds)
  \/ e.call = "tool_change" /\ (QLt(e.a.val, M.U) \/ QOut(e.a.val, p.bounds.toolnum))
  \/ e.call \in TempCalls /\ (NonFinite(e.a.val) \/ QOut(e.a.val, TempBound(e, p.bounds)))
  \/ e.call = "halt" /\ Given(HaltTemp(e)) /\ (NonFinite(HaltTemp(e)) \/ QOut(HaltTemp(e), TempBound(e, p.bounds)))
  \/ e.call = "set_fan_speed" /\ (NonFinite(e.a.val) \/ QNeg(e.a.val) \/ QGt(e.a.val, 255 * M.U) \/ QNeg(e.a.val2))
  \/ e.call = "sleep" /\ (NonFinite(e.a.val) \/ QNeg(e.a.val))
  \/ e.call = "set_resolution" /\ ~QGt(e.a.val, 0)
  \/ e.call \in MotionCalls /\ (ParamsBad(e, p, M) \/ \E i \in 1..3 : AxSureOut(e, p, i, M) \/ NonFinite(e.a.ax[i]))
  \/ e.call \in {"set_axis", "auto_home"} /\ (\E i \in 1..3 : NonFinite(e.a.ax[i]))

MayRejectValue(e, p, M) ==
  \/ MustRejectValue(e, p, M)
  \/ e.call \in AxisCalls /\ (\E i \in 1..3 : AxMaybeOut(e, p, i, M))
  \/ e.call \in {"set_axis", "auto_home"} /\ (NonFinite(e.a.E) \/ NonFinite(e.a.F) \/ NonFinite(e.a.S))
  \/ e.call = "set_bounds"          \* min >= max, unknown name: judged by C03 on what is emitted afterwards
  \/ e.call \in TracerCalls         \* geometric validity and box violations of interpolated segments

Rejected(e) == e.out # "ok"
\* a registered user hook that rewrites F / S (recorder flag `sh`): whether the call is accepted then depends on the hook's
\* result, not on the request -- the clauses about REASONS for rejection do not apply; the emitted words still must be in bounds
HookAlters(e) == e.sh /\ e.call \in MotionCalls

-----------------------------------------------------------------------------
(* C01 -- the emitted program reproduces the tracked position               *)
SlackOf(M, m2, a) == IF M.exact THEN 0 ELSE m2.slack[a] + 1
C01_Pos_Ante(e, p, m, m2, M) == ~M.xf /\ \E a \in AxisSet : m2.known[a]
C01_Pos(e, p, m, m2, M) ==
  ~M.xf => \A a \in AxisSet : m2.known[a] =>
     LET q == e.rep.pos[AxIdx[a]]  sq == e.rep.spos[AxIdx[a]] IN
     /\ q.k = "n"  /\ 2 * Abs(q.v - m2.pos[a]) <= SlackOf(M, m2, a)
     /\ sq.k = "n" /\ 2 * Abs(sq.v - m2.pos[a]) <= SlackOf(M, m2, a)
C01_Mode(e, p, m, m2, M) == m2.rel = e.rep.rel /\ e.rep.srel = e.rep.rel
\* an axis named by an accepted absolute request is carried by the emitted program under the standard letters, i.e. the
\* interpreter knows it afterwards (otherwise C01_Pos would be vacuous on a program that moves unnamed or mislabelled axes)
AbsRequest(e, p) == \/ (e.call \in MoveCalls /\ ~p.rel)
                    \/ e.call \in BypassCalls \cup {"set_axis"}
C01_Carries_Ante(e, p, m, m2, M) == ~M.xf /\ e.out = "ok" /\ ~e.a.haspt /\ AbsRequest(e, p) /\ \E i \in 1..3 : e.a.ax[i].k = "n"
C01_Carries(e, p, m, m2, M) ==
  C01_Carries_Ante(e, p, m, m2, M) => \A i \in 1..3 : e.a.ax[i].k = "n" => m2.known[AxSeq[i]]

-----------------------------------------------------------------------------
(* Beyond the listed properties: the conversion queries to_absolute(),      *)
(* to_distance_mode(), to_absolute_list() (the tracer is built on them; C11  *)
(* rests on them).  As their docstrings say: an unknown coordinate of the   *)
(* current position counts as 0; in absolute mode a given coordinate is the  *)
(* target and an omitted one keeps the current value, in relative mode the   *)
(* given coordinates are offsets; to_distance_mode() goes the other way.     *)
(* They write nothing and change nothing.                                    *)
CV_Calls == {"to_absolute", "to_distance_mode", "to_absolute_list"}
NumOr0(q) == IF q.k = "n" THEN q.v ELSE 0
CV_Cur(p) == [i \in 1..3 |-> NumOr0(p.pos[i])]
CV_Abs(cur, rel, ax) ==
  [i \in 1..3 |-> IF rel THEN cur[i] + NumOr0(ax[i]) ELSE IF ax[i].k = "n" THEN ax[i].v ELSE cur[i]]
RECURSIVE CV_List(_, _, _)
CV_List(cur, rel, pts) ==
  IF pts = <<>> THEN <<>> ELSE LET t == CV_Abs(cur, rel, Head(pts)) IN <<t>> \o CV_List(t, rel, Tail(pts))
CV_Near(got, want, tol) == \A i \in 1..3 : Abs(got[i] - want[i]) <= tol
CV_Convert(e, p, m, m2, M) ==
  (e.call \in CV_Calls /\ e.out = "ok") =>
    LET cur == CV_Cur(p)  tol == IF M.exact THEN 0 ELSE 2 IN
    CASE e.call = "to_absolute" -> Len(e.conv) = 1 /\ CV_Near(e.conv[1], CV_Abs(cur, p.rel, e.a.ax), tol)
      [] e.call = "to_distance_mode" ->
           Len(e.conv) = 1 /\ CV_Near(e.conv[1], [i \in 1..3 |-> NumOr0(e.a.ax[i]) - (IF p.rel THEN cur[i] ELSE 0)], tol)
      [] OTHER ->
           LET want == CV_List(cur, p.rel, e.pts) IN
           Len(e.conv) = Len(want) /\ \A k \in DOMAIN want : CV_Near(e.conv[k], want[k], tol + k)
CV_Pure(e, p, m, m2, M) == e.call \in CV_Calls => (e.out = "ok" /\ e.lines = <<>> /\ e.rep = p)

-----------------------------------------------------------------------------
(* C02 -- interlocks                                                        *)
\* machine states around every line of a call, computed once: PrefixStates(m, lines)[i] is the state before line i
PrefixStates(m, lines) == FoldLeft(LAMBDA acc, ln : Append(acc, ExecLine(acc[Len(acc)], ln.ws)), <<m>>, lines)
C02_Safe(e, p, m, m2, M) ==
  LET ms == PrefixStates(m, e.lines) IN
  \A i \in DOMAIN e.lines : ~Unsafe(ms[i], e.lines[i].ws)
WouldBeUnsafe(e, p) ==
  \/ e.call \in ToolGuarded /\ p.tool
  \/ e.call \in CoolGuarded /\ p.coolact
C02_Raises(e, p, m, m2, M) ==
  WouldBeUnsafe(e, p) =>
     \/ e.out \in {"ToolStateError", "CoolantStateError"}
     \/ e.out = "ValueError" /\ MayRejectValue(e, p, M)
\* the documented conditions speak of a tool that is RUNNING / coolant that is ON: that is the machine's state as the emitted
\* lines made it, not only the builder's belief (seed C02h: a refused tool_on() left the builder believing in a tool that was
\* never started, and every later halt was refused with no tool start ever written)
C02_OnlyDoc(e, p, m, m2, M) ==
  Rejected(e) /\ e.call \notin TracerCalls /\ ~HookAlters(e) /\ ~e.fault =>
     \/ e.out = "ToolStateError"    /\ e.call \in ToolGuarded /\ p.tool /\ m.tool # "off"
     \/ e.out = "CoolantStateError" /\ e.call \in CoolGuarded /\ p.coolact /\ m.coolant # "off"
     \/ e.out = "ValueError"        /\ MayRejectValue(e, p, M)
     \/ e.out \in {"IndexError", "KeyError"} /\ FALSE

-----------------------------------------------------------------------------
(* C03 -- bounds                                                            *)
InB(v, b) == ~b.set \/ (b.lo <= v /\ v <= b.hi)
LineInBounds(mb, ma, ws, b, M) ==
  LET g == GC(ws)  mc == MC(ws) IN
  /\ (HasW(ws, "F") /\ (g \in MotionCodes \cup ProbeCodes \/ (g = -1 /\ mc = -1))) => InB(ValW(ws, "F"), b.feed)
  /\ (HasW(ws, "S") /\ (g \in MotionCodes \cup ProbeCodes \/ (g = -1 /\ mc \in {-1, 30, 40}))) => InB(ValW(ws, "S"), b.power)
  /\ (HasW(ws, "T") /\ mc = 60) => InB(ValW(ws, "T"), b.toolnum)
  /\ \A w \in {"S", "R"} :
       /\ (HasW(ws, w) /\ mc \in {1040, 1090}) => InB(ValW(ws, w), b.hotend)
       /\ (HasW(ws, w) /\ mc \in {1400, 1900}) => InB(ValW(ws, w), b.bed)
       /\ (HasW(ws, w) /\ mc \in {1410, 1910}) => InB(ValW(ws, w), b.chamber)
  /\ (g \in MotionCodes /\ ~M.xf /\ b.axes.set) =>
        \A a \in AxisSet : ma.known[a] =>
           LET sl == IF M.exact THEN 0 ELSE ma.slack[a] IN
           /\ 2 * (b.axes.lo[AxIdx[a]] - ma.pos[a]) <= sl
           /\ 2 * (ma.pos[a] - b.axes.hi[AxIdx[a]]) <= sl
  /\ (g \in ProbeCodes /\ ~M.xf /\ b.axes.set) =>
        \A a \in AxisSet : (HasW(ws, a) /\ (~mb.rel \/ mb.known[a])) =>
           LET tv == IF mb.rel THEN mb.pos[a] + ValW(ws, a) ELSE ValW(ws, a)
               sl == IF M.exact THEN 0 ELSE mb.slack[a] + 1 IN
           /\ 2 * (b.axes.lo[AxIdx[a]] - tv) <= sl
           /\ 2 * (tv - b.axes.hi[AxIdx[a]]) <= sl
C03_Words(e, p, m, m2, M) ==
  LET ms == PrefixStates(m, e.lines) IN
  \A i \in DOMAIN e.lines : LineInBounds(ms[i], ms[i + 1], e.lines[i].ws, p.bounds, M)
C03_Reject_Ante(e, p, m, m2, M) == e.call \notin TracerCalls /\ e.call # "set_bounds" /\ ~HookAlters(e) /\ MustRejectValue(e, p, M)
C03_Reject(e, p, m, m2, M) == C03_Reject_Ante(e, p, m, m2, M) => Rejected(e)
C03_NaN(e, p, m, m2, M) ==
  (\/ IsNaN(e.a.val) \/ IsNaN(e.a.F) \/ IsNaN(e.a.S) \/ IsNaN(e.a.R) \/ \E i \in 1..3 : IsNaN(e.a.ax[i]))
     => Rejected(e)

-----------------------------------------------------------------------------
(* C05 -- a rejected command has no effect                                  *)
SingleCmd(e) == e.call \notin TracerCalls \cup CtxCalls
\* (a call on which the device link failed -- recorder flag `fault` -- was not refused by the builder: its line reached the
\*  first writer and its state stands; C05 speaks about refusals)
C05_NoEffect_Ante(e, p, m, m2, M) == Rejected(e) /\ SingleCmd(e) /\ ~e.fault
C05_NoEmit(e, p, m, m2, M)   == C05_NoEffect_Ante(e, p, m, m2, M) => e.lines = <<>>
C05_NoEffect(e, p, m, m2, M) == C05_NoEffect_Ante(e, p, m, m2, M) => e.rep = p

-----------------------------------------------------------------------------
(* C06 -- tool and coolant can always be switched off                       *)
OnlyM(ln, code) == MC(ln.ws) = code /\ GC(ln.ws) = -1
C06_Ante(e, p, m, m2, M) == e.call \in OffCalls
C06_Off(e, p, m, m2, M) ==
  e.call \in OffCalls =>
    /\ e.out = "ok"
    /\ CASE e.call \in {"tool_off", "power_off"} ->
              Len(e.lines) = 1 /\ OnlyM(e.lines[1], 50) /\ ~e.rep.tool
         [] e.call = "coolant_off" ->
              Len(e.lines) = 1 /\ OnlyM(e.lines[1], 90) /\ ~e.rep.coolact
         [] e.call = "emergency_halt" ->
              /\ Len(e.lines) = 4
              /\ OnlyM(e.lines[1], 50) /\ OnlyM(e.lines[2], 90)
              /\ e.lines[3].ws = <<>> /\ e.lines[3].c
              /\ OnlyM(e.lines[4], IF e.a.flag THEN 300 ELSE 0)
              /\ ~e.rep.tool /\ ~e.rep.coolact

-----------------------------------------------------------------------------
(* C07 -- reported state mirrors the emitted program                        *)
SpinCode(s)  == CASE s = "clockwise" -> "M03" [] s = "counter" -> "M04" [] OTHER -> "off"
PowerCode(s) == CASE s = "constant" -> "M03" [] s = "dynamic" -> "M04" [] OTHER -> "off"
CoolCode(s)  == CASE s = "mist" -> "M07" [] s = "flood" -> "M08" [] OTHER -> "off"
UnitsCode(s) == IF s = "inches" THEN "G20" ELSE "G21"
PlaneCode(s) == CASE s = "xy" -> "G17" [] s = "zx" -> "G18" [] OTHER -> "G19"
FModeCode(s) == CASE s = "1/time" -> "G93" [] s = "units/min" -> "G94" [] OTHER -> "G95"
EModeCode(s) == IF s = "relative" THEN "M83" ELSE "M82"
TempAgree(q, r) == IF r.set THEN Near(q, r.v) ELSE q.k = "ninf"

C07_Tool(e, p, m, m2, M, sb) ==
  /\ e.rep.tool = (m2.tool # "off")
  /\ e.rep.tool => /\ Near(e.rep.power, m2.S)
                   /\ sb = "tool_on"  => SpinCode(e.rep.spin) = m2.tool
                   /\ sb = "power_on" => PowerCode(e.rep.pmode) = m2.tool
C07_Coolant(e, p, m, m2, M) ==
  /\ e.rep.coolact = (m2.coolant # "off")
  /\ CoolCode(e.rep.coolant) = m2.coolant
C07_Modal(e, p, m, m2, M) ==
  /\ Near(e.rep.toolnum, m2.T)
  /\ Near(e.rep.feed, m2.F)
  /\ e.rep.srel = m2.rel
  /\ EModeCode(e.rep.emode) = m2.emode
  /\ FModeCode(e.rep.fmode) = m2.fmode
  /\ UnitsCode(e.rep.units) = m2.units
  /\ PlaneCode(e.rep.plane) = m2.plane
C07_Temps(e, p, m, m2, M) ==
  /\ TempAgree(e.rep.bed, m2.bed)
  /\ TempAgree(e.rep.hotend, m2.hotend)
  /\ TempAgree(e.rep.chamber, m2.chamber)
C07_Params(e, p, m, m2, M) ==
  \A pl \in ParamLetters :
     IF m2.params[pl].set
       THEN Near(e.rep.params[pl], m2.params[pl].v) /\ Near(e.rep.sparams[pl], m2.params[pl].v)
       ELSE e.rep.params[pl].k = "none"

-----------------------------------------------------------------------------
(* C20 -- move hooks                                                        *)
G1Lines(e) == {i \in DOMAIN e.lines : GC(e.lines[i].ws) = 10}
G1Seq(e)   == SetToSortSeq(G1Lines(e), <)
C20_Ante(e, p, m, m2, M) == e.ph /\ G1Lines(e) # {}
\* a rejected call may have consulted the hooks before it was rejected; the
\* property speaks about moves, i.e. about what was emitted
C20_Count(e, p, m, m2, M) ==
  /\ (e.ph /\ e.out = "ok") => Len(e.hooks) = Cardinality(G1Lines(e))
  \* "every REGISTERED hook": one that was removed (by the recorder's own account) is not called any more
  /\ ~e.ph => e.hooks = <<>>
C20_Geometry(e, p, m, m2, M) ==
  (e.ph /\ e.out = "ok" /\ ~M.xf /\ Len(e.hooks) = Cardinality(G1Lines(e))) =>
    LET ms == PrefixStates(m, e.lines)  g1 == G1Seq(e) IN
    \A j \in 1..Len(e.hooks) :
       LET i  == g1[j]
           mb == ms[i]
           ma == ms[i + 1]
           h  == e.hooks[j] IN
       \A a \in AxisSet :
          /\ mb.known[a] => (h.o[AxIdx[a]].k = "n" /\ 2 * Abs(h.o[AxIdx[a]].v - mb.pos[a]) <= SlackOf(M, mb, a))
          /\ ma.known[a] => (h.t[AxIdx[a]].k = "n" /\ 2 * Abs(h.t[AxIdx[a]].v - ma.pos[a]) <= SlackOf(M, ma, a))
C20_Params(e, p, m, m2, M) ==
  (e.ph /\ e.out = "ok" /\ Len(e.hooks) = Cardinality(G1Lines(e))) =>
    LET g1 == G1Seq(e) IN
    \A j \in 1..Len(e.hooks) :
       LET i == g1[j]  ws == e.lines[i].ws  h == e.hooks[j] IN
       \A pl \in ParamLetters :
          IF h.pout[pl].k = "n" THEN HasW(ws, pl) /\ Near(h.pout[pl], ValW(ws, pl))
          ELSE ~HasW(ws, pl)

-----------------------------------------------------------------------------
(* C20 -- the bundled extrusion hook: the filament commanded by every linear *)
(* move equals (nozzle x layer / filament cross-section) x XY length, judged *)
(* on the INTERPRETER's filament position (E := word under M82, E += word    *)
(* under M83, G92 E sets it): that is exactly "a per-move amount in relative *)
(* extrusion mode and a running total, restartable with an E reset, in       *)
(* absolute mode".  Geometry in 10^-3 mm; pi = 355/113.                      *)
ISqrtB(n) ==
  LET RECURSIVE nw(_, _)
      nw(x, k) == IF k = 0 THEN x ELSE LET y == (x + n \div x) \div 2 IN IF y >= x THEN x ELSE nw(y, k - 1)
  IN IF n <= 0 THEN 0 ELSE IF n < 4 THEN 1 ELSE nw(n \div 2, 40)
ExpectedE(hp, L) ==          \* filament for XY length L:  nd * lh * 4 * 113 / (355 * fd^2) * L
  LET num == (hp.nd * hp.lh * 452) \div 10000
      den == (((355 * hp.fd) \div 100) * hp.fd) \div 100 IN
  (num * L) \div den
\* walk over the lines of one call; esw = "the extrusion mode went from relative to absolute and E was not reset since"
ExtrusionWalk(e, m, esw0) ==
  LET step(acc, ln) ==
        LET ws == ln.ws
            mb == acc.m
            ma == ExecLine(mb, ws)
            isG1 == GC(ws) = 10
            dx == ma.pos["X"] - mb.pos["X"]  dy == ma.pos["Y"] - mb.pos["Y"]
            L == ISqrtB(dx * dx + dy * dy)
            dE == ma.E - mb.E
            want == ExpectedE(e.ehp, L)
            judged == isG1 /\ mb.known["X"] /\ mb.known["Y"] /\ Abs(dx) <= 30000 /\ Abs(dy) <= 30000
            ok == Abs(dE - want) <= 3 + want \div 500 + (IF mb.rel THEN 2 ELSE 0)
            esw2 == IF MC(ws) = 820 /\ mb.emode = "M83" THEN TRUE
                    ELSE IF GC(ws) = 920 /\ HasW(ws, "E") THEN FALSE
                    ELSE IF isG1 /\ mb.emode = "M82" /\ HasW(ws, "E") THEN FALSE
                    ELSE acc.esw
        IN [m |-> ma, esw |-> esw2,
            bad |-> acc.bad \/ (judged /\ ~ok /\ ~acc.esw),
            excused |-> acc.excused \/ (judged /\ ~ok /\ acc.esw),
            n |-> acc.n + IF judged THEN 1 ELSE 0]
  IN FoldLeft(step, [m |-> m, esw |-> esw0, bad |-> FALSE, excused |-> FALSE, n |-> 0], e.lines)
C20_Extrusion(e, p, m, m2, M, esw0) == (e.eh /\ e.out = "ok") => ~ExtrusionWalk(e, m, esw0).bad
C20_ExtrusionF14(e, p, m, m2, M, esw0) == (e.eh /\ e.out = "ok") => ~ExtrusionWalk(e, m, esw0).excused

-----------------------------------------------------------------------------
(* Signatures of known findings (see known_findings.json).  A failing clause *)
(* is attributed to a finding only if the failing step satisfies the         *)
(* signature; anything else is reported as a violation.                      *)
Sig_BypassRejectEmitsModePair(e, p) ==
  /\ e.call \in BypassCalls /\ p.rel /\ Rejected(e)
  /\ Len(e.lines) = 2 /\ GC(e.lines[1].ws) = 900 /\ GC(e.lines[2].ws) = 910
  /\ Len(e.lines[1].ws) = 1 /\ Len(e.lines[2].ws) = 1
  /\ e.rep = p

SigOf(c, e, p) ==
  IF c = "C05_NoEmit" /\ Sig_BypassRejectEmitsModePair(e, p) THEN "BypassRejectEmitsModePair"
  ELSE IF c = "C20_ExtrusionF14" THEN "FirstAbsoluteEAfterRelative"
  ELSE ""
=============================================================================
