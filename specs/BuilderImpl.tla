---------------------------- MODULE BuilderImpl ----------------------------
(***************************************************************************)
(* Implementation-shaped model of gscrib.GCodeBuilder (gcode_core.py,      *)
(* gcode_builder.py, gcode_state.py, geometry/bounds.py, point.py):        *)
(* one action per public method, validation / commit / write in the order  *)
(* of the source, the builder's own abstract state held in the same record *)
(* shape the recorder snapshots (`rep`), and the emitted lines fed to the  *)
(* independent interpreter of Machine.tla.                                  *)
(*                                                                          *)
(* TLC checks the contract clauses of Builder.tla on every transition      *)
(* (action properties; `ev` is a write-only history variable hidden by the *)
(* VIEW) and generates the behaviours that are replayed on the real code.  *)
(*                                                                          *)
(* Deliberate deviation named here: BypassRejectEmitsModePair (a rejected  *)
(* move_absolute / rapid_absolute issued in relative mode has already      *)
(* written G90 and writes G91 on the way out) -- finding F16.               *)
(***************************************************************************)
EXTENDS Builder, TLC

CONSTANTS Acts,      \* names of the enabled public calls
          AxUsed,    \* axes (1..3) that arguments may mention
          Coords,    \* absolute coordinate values
          Deltas,    \* relative offsets
          Vals,      \* values for F / S / temperatures / tool numbers
          MaxCtx,    \* nesting depth of mode context managers
          BoxSet,    \* set of [lo, hi] boxes that set_bounds("axes") may install
          RangeSet,  \* set of [lo, hi] ranges for the scalar bounds
          BoundNames \* properties set_bounds() may be called for

VARIABLES rep, ctx, mach, sb, ph, ev
vars == <<rep, ctx, mach, sb, ph, ev>>
\* `ev` is write-only history; `mach.slack` counts roundings and is irrelevant
\* on the exact grid the model lives on (it would make the space infinite)
view == <<rep, ctx, [mach EXCEPT !.slack = [a \in AxisSet |-> 0]], sb, ph>>

MM == [dp |-> 0, U |-> 1, exact |-> TRUE, xf |-> FALSE]

Q(v)   == [k |-> "n", v |-> v, s |-> 0, t |-> FALSE]
NoneQ  == [k |-> "none", v |-> 0, s |-> 0, t |-> FALSE]
NInfQ  == [k |-> "ninf", v |-> 0, s |-> 0, t |-> FALSE]
Unb    == [set |-> FALSE, lo |-> 0, hi |-> 0]
Letters == {"X", "Y", "Z"} \cup ParamLetters

InitRep ==
  [ pos |-> <<NoneQ, NoneQ, NoneQ>>, spos |-> <<Q(0), Q(0), Q(0)>>,
    rel |-> FALSE, srel |-> FALSE, feed |-> Q(0), power |-> Q(0),
    tool |-> FALSE, coolact |-> FALSE, toolnum |-> Q(0),
    bed |-> NInfQ, hotend |-> NInfQ, chamber |-> NInfQ,
    spin |-> "off", pmode |-> "off", coolant |-> "off", swap |-> "off", halt |-> "off",
    units |-> "millimeters", plane |-> "xy", fmode |-> "units/min", emode |-> "absolute",
    tunits |-> "celsius", timeunits |-> "seconds", dir |-> "clockwise",
    res |-> Q(1),          \* the recorder sets the resolution to one unit before the first call
    params  |-> [x \in Letters |-> NoneQ],
    sparams |-> [x \in Letters |-> NoneQ],
    bounds |-> [axes |-> [set |-> FALSE, lo |-> <<0, 0, 0>>, hi |-> <<0, 0, 0>>],
                feed |-> Unb, power |-> Unb, toolnum |-> Unb, bed |-> Unb, hotend |-> Unb, chamber |-> Unb] ]

A0 == [ax |-> <<NoneQ, NoneQ, NoneQ>>, F |-> NoneQ, S |-> NoneQ, E |-> NoneQ, R |-> NoneQ,
       mode |-> "", val |-> NoneQ, val2 |-> NoneQ, name |-> "", lo |-> NoneQ, hi |-> NoneQ,
       lo3 |-> <<NoneQ, NoneQ, NoneQ>>, hi3 |-> <<NoneQ, NoneQ, NoneQ>>, flag |-> FALSE, haspt |-> FALSE]

W(l, v)   == [l |-> l, v |-> v, ok |-> TRUE]
Ln(ws)    == [ws |-> ws, c |-> FALSE]
CLn       == [ws |-> <<>>, c |-> TRUE]

\* optional numbers: a value of Vals or "none"
OptVals == {NoneQ} \cup {Q(v) : v \in Vals}
AxArgs(S) == { ax \in [1..3 -> {NoneQ} \cup {Q(c) : c \in S}] : \A i \in 1..3 : (i \notin AxUsed => ax[i] = NoneQ) }
AsSeq(f) == <<f[1], f[2], f[3]>>

InRange(b, v) == ~b.set \/ (b.lo <= v /\ v <= b.hi)
Res(q) == IF q.k = "n" THEN q.v ELSE 0

-----------------------------------------------------------------------------
(* Result of a call: new builder state, emitted lines, outcome, hook log.   *)
Ok(r, lines)        == [rep |-> r, lines |-> lines, out |-> "ok", hooks |-> <<>>]
OkH(r, lines, hk)   == [rep |-> r, lines |-> lines, out |-> "ok", hooks |-> hk]
Fail(r, kind)       == [rep |-> r, lines |-> <<>>, out |-> kind, hooks |-> <<>>]
FailL(r, kind, ls)  == [rep |-> r, lines |-> ls, out |-> kind, hooks |-> <<>>]
FailH(r, kind, hk)  == [rep |-> r, lines |-> <<>>, out |-> kind, hooks |-> hk]

\* GCodeBuilder.write(): resets the halt mode, then the line goes out
Written(r) == [r EXCEPT !.halt = "off"]

\* gcode_state._validate_feed_rate / _validate_tool_power (bounds first, then sign)
FeedOk(r, v)  == InRange(r.bounds.feed, v) /\ v >= 0
PowerOk(r, v) == InRange(r.bounds.power, v) /\ v >= 0

\* Point.within_bounds: unknown coordinates are ignored
BoxOk(r, tq) ==
  ~r.bounds.axes.set \/
  \A i \in 1..3 : tq[i].k = "n" => (r.bounds.axes.lo[i] <= tq[i].v /\ tq[i].v <= r.bounds.axes.hi[i])

\* GCodeCore.to_absolute: unknown coordinates count as zero
ToAbs(r, ax) ==
  [i \in 1..3 |->
     IF r.rel THEN Q(Res(r.pos[i]) + Res(ax[i]))
     ELSE IF ax[i].k = "n" THEN ax[i] ELSE Q(Res(r.pos[i]))]

\* words of a move: requested axes carry the target (absolute) or offset (relative)
AxWords(r, ax, tgt) ==
  LET w(i) == IF ax[i].k = "n"
                THEN <<W(AxSeq[i], IF r.rel THEN tgt[i].v - Res(r.pos[i]) ELSE tgt[i].v)>>
                ELSE <<>>
  IN w(1) \o w(2) \o w(3)
ParWords(F, S, E) ==
  (IF F.k = "n" THEN <<W("F", F.v)>> ELSE <<>>) \o
  (IF S.k = "n" THEN <<W("S", S.v)>> ELSE <<>>) \o
  (IF E.k = "n" THEN <<W("E", E.v)>> ELSE <<>>)

NewPar(old, ax, F, S, E, B) ==
  [x \in Letters |->
     CASE x = "X" -> ax[1] [] x = "Y" -> ax[2] [] x = "Z" -> ax[3]
       [] x = "F" -> IF F.k = "n" THEN F ELSE old[x]
       [] x = "S" -> IF S.k = "n" THEN S ELSE old[x]
       [] x = "E" -> IF E.k = "n" THEN E ELSE old[x]
       [] x = "B" -> IF B.k = "n" THEN B ELSE old[x]
       [] OTHER -> old[x]]

\* GCodeBuilder._update_axes after fix F1: validate axes, then F, then S; commit; track
Commit(r, tq, ax, F, S, E, B, track) ==
  LET par == NewPar(r.params, ax, F, S, E, B) IN
  [r EXCEPT !.pos = tq, !.spos = tq, !.params = par, !.sparams = par,
            !.feed  = IF track /\ F.k = "n" THEN F ELSE r.feed,
            !.power = IF track /\ S.k = "n" THEN S ELSE r.power]
MoveValid(r, tq, F, S, track) ==
  /\ BoxOk(r, tq)
  /\ (track /\ F.k = "n") => FeedOk(r, F.v)
  /\ (track /\ S.k = "n") => PowerOk(r, S.v)

HookRec(r, tgt, F, S, E) ==
  [o |-> <<Q(Res(r.pos[1])), Q(Res(r.pos[2])), Q(Res(r.pos[3]))>>,
   t |-> tgt,
   pin  |-> [x \in ParamLetters |-> CASE x = "F" -> F [] x = "S" -> S [] x = "E" -> E [] OTHER -> NoneQ],
   pout |-> [x \in ParamLetters |-> CASE x = "F" -> F [] x = "S" -> S [] x = "E" -> E [] x = "B" -> Q(1) [] OTHER -> NoneQ]]

\* move() / rapid()
DoMove(r, linear, ax, F, S, E) ==
  LET tgt  == AsSeq(ToAbs(r, ax))
      hk   == IF linear /\ ph THEN <<HookRec(r, tgt, F, S, E)>> ELSE <<>>
      B    == IF hk # <<>> THEN Q(1) ELSE NoneQ
      code == IF linear THEN 10 ELSE 0
      ws   == <<W("G", code)>> \o AxWords(r, ax, tgt) \o ParWords(F, S, E)
                 \o (IF B.k = "n" THEN <<W("B", 1)>> ELSE <<>>)
  IN IF ~MoveValid(r, tgt, F, S, TRUE) THEN FailH(r, "ValueError", hk)
     ELSE OkH(Written(Commit(r, tgt, ax, F, S, E, B, TRUE)), <<Ln(ws)>>, hk)

\* move_absolute() / rapid_absolute(): absolute_mode() context around the move
DoBypass(r, linear, ax, F, S, E) ==
  LET tgt  == [i \in 1..3 |-> IF ax[i].k = "n" THEN ax[i] ELSE r.pos[i]]
      ra   == [r EXCEPT !.rel = FALSE, !.srel = FALSE]      \* inside the context
      htg  == [i \in 1..3 |-> IF ax[i].k = "n" THEN ax[i] ELSE Q(Res(r.pos[i]))]
      hk   == IF linear /\ ph THEN <<HookRec(r, AsSeq(htg), F, S, E)>> ELSE <<>>
      B    == IF hk # <<>> THEN Q(1) ELSE NoneQ
      code == IF linear THEN 10 ELSE 0
      axw  == LET w(i) == IF ax[i].k = "n" THEN <<W(AxSeq[i], ax[i].v)>> ELSE <<>> IN w(1) \o w(2) \o w(3)
      ws   == <<W("G", code)>> \o axw \o ParWords(F, S, E) \o (IF B.k = "n" THEN <<W("B", 1)>> ELSE <<>>)
      pre  == IF r.rel THEN <<Ln(<<W("G", 900)>>)>> ELSE <<>>
      post == IF r.rel THEN <<Ln(<<W("G", 910)>>)>> ELSE <<>>
  IN IF ~MoveValid(ra, AsSeq(tgt), F, S, TRUE)
       THEN [rep |-> (IF r.rel THEN Written(r) ELSE r), lines |-> pre \o post, out |-> "ValueError", hooks |-> hk]  \* BypassRejectEmitsModePair
       ELSE OkH([Written(Commit(ra, AsSeq(tgt), ax, F, S, E, B, TRUE)) EXCEPT !.rel = r.rel, !.srel = r.rel],
                pre \o <<Ln(ws)>> \o post, hk)

DoSetAxis(r, ax, E) ==
  LET tgt == [i \in 1..3 |-> IF ax[i].k = "n" THEN ax[i] ELSE r.pos[i]]
      axw == LET w(i) == IF ax[i].k = "n" THEN <<W(AxSeq[i], ax[i].v)>> ELSE <<>> IN w(1) \o w(2) \o w(3)
      ws  == <<W("G", 920)>> \o axw \o ParWords(NoneQ, NoneQ, E)
  IN IF ~BoxOk(r, AsSeq(tgt)) THEN Fail(r, "ValueError")
     ELSE Ok(Written(Commit(r, AsSeq(tgt), ax, NoneQ, NoneQ, E, NoneQ, FALSE)), <<Ln(ws)>>)

DoHome(r, ax) ==
  LET none == \A i \in 1..3 : ax[i].k # "n"
      pt   == IF none THEN <<Q(0), Q(0), Q(0)>> ELSE ax
      tgt  == [i \in 1..3 |-> IF pt[i].k = "n" THEN NoneQ ELSE r.pos[i]]
      axw  == LET w(i) == IF ax[i].k = "n" THEN <<W(AxSeq[i], ax[i].v)>> ELSE <<>> IN w(1) \o w(2) \o w(3)
  IN IF ~BoxOk(r, AsSeq(tgt)) THEN Fail(r, "ValueError")
     ELSE Ok(Written(Commit(r, AsSeq(tgt), ax, NoneQ, NoneQ, NoneQ, NoneQ, FALSE)), <<Ln(<<W("G", 280)>> \o axw)>>)

ProbeCode(mode) == CASE mode = "towards" -> 382 [] mode = "towards-no-error" -> 383
                     [] mode = "away" -> 384 [] OTHER -> 385
DoProbe(r, mode, ax, F) ==
  LET tgt == AsSeq(ToAbs(r, ax))
      msk == [i \in 1..3 |-> IF ax[i].k = "n" THEN NoneQ ELSE tgt[i]]
      ws  == <<W("G", ProbeCode(mode))>> \o AxWords(r, ax, tgt) \o ParWords(F, NoneQ, NoneQ)
  IN IF ~BoxOk(r, tgt) THEN Fail(r, "ValueError")                    \* fix F5: the unmasked target is validated
     ELSE IF ~MoveValid(r, AsSeq(msk), F, NoneQ, TRUE) THEN Fail(r, "ValueError")
     ELSE Ok(Written(Commit(r, AsSeq(msk), ax, F, NoneQ, NoneQ, NoneQ, TRUE)), <<Ln(ws)>>)

DoSetMode(r, relative) ==
  Ok(Written([r EXCEPT !.rel = relative, !.srel = relative]), <<Ln(<<W("G", IF relative THEN 910 ELSE 900)>>)>>)

-----------------------------------------------------------------------------
(* interlocked calls (gcode_state.py)                                       *)
DoToolOn(r, api, mode, v) ==
  LET valid == IF api = "tool_on" THEN {"clockwise", "counter"} ELSE {"constant", "dynamic"}
      code  == IF mode \in {"clockwise", "constant"} THEN 30 ELSE 40 IN
  IF mode \notin valid THEN Fail(r, "ValueError")
  ELSE IF r.tool THEN Fail(r, "ToolStateError")
  ELSE IF ~PowerOk(r, v) THEN Fail(r, "ValueError")
  ELSE Ok(Written(IF api = "tool_on"
                    THEN [r EXCEPT !.power = Q(v), !.tool = TRUE, !.spin = mode]
                    ELSE [r EXCEPT !.power = Q(v), !.tool = TRUE, !.pmode = mode]),
          <<Ln(<<W("S", v), W("M", code)>>)>>)
DoToolOff(r, api) ==   \* after fix F4: the implicit power 0 is not validated
  Ok(Written(IF api = "tool_off" THEN [r EXCEPT !.power = Q(0), !.tool = FALSE, !.spin = "off"]
                                 ELSE [r EXCEPT !.power = Q(0), !.tool = FALSE, !.pmode = "off"]),
     <<Ln(<<W("M", 50)>>)>>)
DoCoolOn(r, mode) ==
  IF mode \notin {"mist", "flood"} THEN Fail(r, "ValueError")
  ELSE IF r.coolact THEN Fail(r, "CoolantStateError")
  ELSE Ok(Written([r EXCEPT !.coolact = TRUE, !.coolant = mode]), <<Ln(<<W("M", IF mode = "mist" THEN 70 ELSE 80)>>)>>)
DoCoolOff(r) == Ok(Written([r EXCEPT !.coolact = FALSE, !.coolant = "off"]), <<Ln(<<W("M", 90)>>)>>)
DoToolChange(r, mode, n) ==
  IF mode \notin {"manual", "automatic"} THEN Fail(r, "ValueError")
  ELSE IF ~InRange(r.bounds.toolnum, n) \/ n < 1 THEN Fail(r, "ValueError")
  ELSE IF r.tool THEN Fail(r, "ToolStateError")
  ELSE IF r.coolact THEN Fail(r, "CoolantStateError")
  ELSE Ok(Written([r EXCEPT !.toolnum = Q(n), !.swap = mode]), <<Ln(<<W("T", n), W("M", 60)>>)>>)

HaltCode(mode) ==
  CASE mode = "pause" -> 0 [] mode = "optional-pause" -> 10 [] mode = "end-without-reset" -> 20
    [] mode = "end-with-reset" -> 300 [] mode = "pallet-exchange" -> 600 [] mode = "wait-for-bed" -> 1900
    [] mode = "wait-for-hotend" -> 1090 [] mode = "wait-for-chamber" -> 1910 [] OTHER -> 4000
HaltModes == {"pause", "optional-pause", "end-without-reset", "end-with-reset", "pallet-exchange",
              "wait-for-bed", "wait-for-hotend", "wait-for-chamber", "wait-for-motion"}
DoHalt(r, mode, S) ==
  LET b == CASE mode = "wait-for-bed" -> r.bounds.bed [] mode = "wait-for-hotend" -> r.bounds.hotend
             [] mode = "wait-for-chamber" -> r.bounds.chamber [] OTHER -> Unb
      r2 == CASE S.k # "n" -> r
              [] mode = "wait-for-bed" -> [r EXCEPT !.bed = S]
              [] mode = "wait-for-hotend" -> [r EXCEPT !.hotend = S]
              [] mode = "wait-for-chamber" -> [r EXCEPT !.chamber = S]
              [] OTHER -> r
  IN IF mode \notin HaltModes THEN Fail(r, "ValueError")
     ELSE IF r.tool THEN Fail(r, "ToolStateError")
     ELSE IF r.coolact THEN Fail(r, "CoolantStateError")
     ELSE IF S.k = "n" /\ ~InRange(b, S.v) THEN Fail(r, "ValueError")       \* fix F3: halt mode rolled back
     ELSE Ok(Written(r2), <<Ln(<<W("M", HaltCode(mode))>> \o (IF S.k = "n" THEN <<W("S", S.v)>> ELSE <<>>))>>)
DoEmergency(r, reset) ==
  LET r1 == [r EXCEPT !.power = Q(0), !.tool = FALSE, !.spin = "off", !.coolact = FALSE, !.coolant = "off"] IN
  Ok(Written(r1), <<Ln(<<W("M", 50)>>), Ln(<<W("M", 90)>>), CLn, Ln(<<W("M", IF reset THEN 300 ELSE 0)>>)>>)

DoSetPower(r, v) == IF ~PowerOk(r, v) THEN Fail(r, "ValueError")
                    ELSE Ok(Written([r EXCEPT !.power = Q(v)]), <<Ln(<<W("S", v)>>)>>)
DoSetFeed(r, v)  == IF ~FeedOk(r, v) THEN Fail(r, "ValueError")
                    ELSE Ok(Written([r EXCEPT !.feed = Q(v)]), <<Ln(<<W("F", v)>>)>>)
DoSetTemp(r, which, v) ==
  LET b == CASE which = "bed" -> r.bounds.bed [] which = "hotend" -> r.bounds.hotend [] OTHER -> r.bounds.chamber
      code == CASE which = "bed" -> 1400 [] which = "hotend" -> 1040 [] OTHER -> 1410 IN
  IF ~InRange(b, v) THEN Fail(r, "ValueError")
  ELSE Ok(Written(CASE which = "bed" -> [r EXCEPT !.bed = Q(v)] [] which = "hotend" -> [r EXCEPT !.hotend = Q(v)]
                    [] OTHER -> [r EXCEPT !.chamber = Q(v)]), <<Ln(<<W("M", code), W("S", v)>>)>>)

-----------------------------------------------------------------------------
(* The remaining public calls (gcode_builder.py): modal setters, unit       *)
(* systems, direction, resolution, dwell, fan, query, comment, bounds.      *)
ModeCode(call, mode) ==
  CASE call = "set_plane" -> (CASE mode = "xy" -> 170 [] mode = "zx" -> 180 [] mode = "yz" -> 190 [] OTHER -> -1)
    [] call = "set_feed_mode" -> (CASE mode = "1/time" -> 930 [] mode = "units/min" -> 940 [] mode = "units/rev" -> 950 [] OTHER -> -1)
    [] call = "set_extrusion_mode" -> (CASE mode = "absolute" -> 820 [] mode = "relative" -> 830 [] OTHER -> -1)
    [] call = "set_length_units" -> (CASE mode = "inches" -> 200 [] mode = "millimeters" -> 210 [] OTHER -> -1)
    [] OTHER -> -1
ModeField(call) == CASE call = "set_plane" -> "plane" [] call = "set_feed_mode" -> "fmode"
                     [] call = "set_extrusion_mode" -> "emode" [] OTHER -> "units"
\* set_length_units() converts the resolution to the new unit when the unit changes (fix F17); the converted value
\* is a float the integer grid cannot hold: the model only says "some other positive number" (C12_Units decides it)
Scaled == [k |-> "scaled", v |-> 0, s |-> 0, t |-> FALSE]
DoModal(r, call, mode) ==
  LET code == ModeCode(call, mode)
      r1 == IF call = "set_length_units" /\ mode # r.units THEN [r EXCEPT !.res = Scaled] ELSE r IN
  IF code < 0 THEN Fail(r, "ValueError")
  ELSE Ok(Written([r1 EXCEPT ![ModeField(call)] = mode]),
          <<Ln(<<W(IF call = "set_extrusion_mode" THEN "M" ELSE "G", code)>>)>>)

\* state only, nothing written (so a pending halt mode is NOT cleared)
StateModes(call) == CASE call = "set_time_units" -> {"seconds", "milliseconds"}
                      [] call = "set_temperature_units" -> {"celsius", "kelvin"}
                      [] call = "set_direction" -> {"clockwise", "counter"} [] OTHER -> {}
StateField(call) == CASE call = "set_time_units" -> "timeunits" [] call = "set_temperature_units" -> "tunits" [] OTHER -> "dir"
DoStateOnly(r, call, mode) ==
  IF mode \notin StateModes(call) THEN Fail(r, "ValueError") ELSE Ok([r EXCEPT ![StateField(call)] = mode], <<>>)
DoSetResolution(r, v) == IF v <= 0 THEN Fail(r, "ValueError") ELSE Ok([r EXCEPT !.res = Q(v)], <<>>)

\* one line, no tracked state
DoSleep(r, v) == IF v < 0 THEN Fail(r, "ValueError") ELSE Ok(Written(r), <<Ln(<<W("G", 40), W("P", v)>>)>>)
DoFan(r, v, n, top) ==       \* top = 255 in the units of v
  IF n < 0 \/ v < 0 \/ v > top THEN Fail(r, "ValueError")
  ELSE Ok(Written(r), <<Ln(<<W("M", 1060), W("P", n), W("S", v)>>)>>)
DoQuery(r, mode) ==
  IF mode \notin {"position", "temperature"} THEN Fail(r, "ValueError")
  ELSE Ok(Written(r), <<Ln(<<W("M", IF mode = "position" THEN 1140 ELSE 1050)>>)>>)
DoComment(r) == Ok(Written(r), <<CLn>>)

\* BoundManager.set_bounds: min >= max is refused; for points `<` is "<= on every axis and < on one"
BoundKey(name) == CASE name = "feed-rate" -> "feed" [] name = "tool-power" -> "power" [] name = "tool-number" -> "toolnum"
                    [] name = "bed-temperature" -> "bed" [] name = "hotend-temperature" -> "hotend" [] OTHER -> "chamber"
ScalarBoundNames == {"feed-rate", "tool-power", "tool-number", "bed-temperature", "hotend-temperature", "chamber-temperature"}
PtLess(a, b) == (\A i \in 1..3 : a[i] <= b[i]) /\ (\E i \in 1..3 : a[i] < b[i])
DoSetBoundsScalar(r, name, lo, hi) ==
  IF name \notin ScalarBoundNames \/ lo >= hi THEN Fail(r, "ValueError")
  ELSE Ok([r EXCEPT !.bounds = [r.bounds EXCEPT ![BoundKey(name)] = [set |-> TRUE, lo |-> lo, hi |-> hi]]], <<>>)
DoSetBoundsAxes(r, lo3, hi3) ==
  IF ~PtLess(lo3, hi3) THEN Fail(r, "ValueError")
  ELSE Ok([r EXCEPT !.bounds.axes = [set |-> TRUE, lo |-> lo3, hi |-> hi3]], <<>>)

-----------------------------------------------------------------------------
(* One step: a public call with its arguments; the event is built in the    *)
(* shape the recorder writes.                                                *)
Fire(call, a, res) ==
  /\ call \in Acts
  /\ rep' = res.rep
  /\ mach' = Exec(mach, res.lines)
  /\ sb' = IF res.out = "ok" /\ call \in {"tool_on", "power_on"} THEN call ELSE sb
  /\ ev' = [call |-> call, out |-> res.out, a |-> a, lines |-> res.lines, rep |-> res.rep,
            hooks |-> res.hooks, ph |-> ph, sh |-> FALSE, fault |-> FALSE]

Move(call) ==
  \E ax \in AxArgs(IF rep.rel THEN Deltas ELSE Coords), F \in OptVals, S \in OptVals :
     /\ (S.k = "n" => F.k = "n")                      \* keep the product small: S only together with F
     /\ Fire(call, [A0 EXCEPT !.ax = AsSeq(ax), !.F = F, !.S = S],
             DoMove(rep, call = "move", AsSeq(ax), F, S, NoneQ))
     /\ UNCHANGED <<ctx, ph>>
Bypass(call) ==
  \E ax \in AxArgs(Coords), F \in OptVals :
     /\ Fire(call, [A0 EXCEPT !.ax = AsSeq(ax), !.F = F],
             DoBypass(rep, call = "move_absolute", AsSeq(ax), F, NoneQ, NoneQ))
     /\ UNCHANGED <<ctx, ph>>
SetAxis ==
  \E ax \in AxArgs(Coords) :
     /\ Fire("set_axis", [A0 EXCEPT !.ax = AsSeq(ax)], DoSetAxis(rep, AsSeq(ax), NoneQ))
     /\ UNCHANGED <<ctx, ph>>
Home ==
  \E ax \in AxArgs({0}) :
     /\ Fire("auto_home", [A0 EXCEPT !.ax = AsSeq(ax)], DoHome(rep, AsSeq(ax)))
     /\ UNCHANGED <<ctx, ph>>
Probe ==
  \E ax \in AxArgs(IF rep.rel THEN Deltas ELSE Coords), F \in OptVals, mode \in {"towards", "away-no-error"} :
     /\ \E i \in 1..3 : ax[i].k = "n"
     /\ Fire("probe", [A0 EXCEPT !.ax = AsSeq(ax), !.F = F, !.mode = mode], DoProbe(rep, mode, AsSeq(ax), F))
     /\ UNCHANGED <<ctx, ph>>
SetMode ==
  \E m \in {"absolute", "relative"} :
     /\ Fire("set_distance_mode", [A0 EXCEPT !.mode = m], DoSetMode(rep, m = "relative"))
     /\ UNCHANGED <<ctx, ph>>
CtxEnter ==
  \E m \in {"absolute", "relative"} :
     /\ Len(ctx) < MaxCtx
     /\ Fire("ctx_enter", [A0 EXCEPT !.mode = m],
             IF (m = "relative") # rep.rel THEN DoSetMode(rep, m = "relative") ELSE Ok(rep, <<>>))
     /\ ctx' = Append(ctx, rep.rel)
     /\ UNCHANGED ph
CtxExit ==
  \E raised \in BOOLEAN :
     /\ ctx # <<>>
     /\ Fire("ctx_exit", [A0 EXCEPT !.flag = raised],
             IF ctx[Len(ctx)] # rep.rel THEN DoSetMode(rep, ctx[Len(ctx)]) ELSE Ok(rep, <<>>))
     /\ ctx' = SubSeq(ctx, 1, Len(ctx) - 1)
     /\ UNCHANGED ph

ToolOn(api) ==
  \E mode \in (IF api = "tool_on" THEN {"clockwise", "counter", "off"} ELSE {"constant", "dynamic", "off"}), v \in Vals :
     /\ Fire(api, [A0 EXCEPT !.mode = mode, !.val = Q(v)], DoToolOn(rep, api, mode, v))
     /\ UNCHANGED <<ctx, ph>>
ToolOff(api) == Fire(api, A0, DoToolOff(rep, api)) /\ UNCHANGED <<ctx, ph>>
CoolOn  == \E mode \in {"mist", "flood", "off"} :
             Fire("coolant_on", [A0 EXCEPT !.mode = mode], DoCoolOn(rep, mode)) /\ UNCHANGED <<ctx, ph>>
CoolOff == Fire("coolant_off", A0, DoCoolOff(rep)) /\ UNCHANGED <<ctx, ph>>
ToolChange ==
  \E mode \in {"manual", "automatic", "off"}, n \in Vals :
     Fire("tool_change", [A0 EXCEPT !.mode = mode, !.val = Q(n)], DoToolChange(rep, mode, n)) /\ UNCHANGED <<ctx, ph>>
Halt ==
  \E mode \in HaltModes \cup {"off"}, S \in OptVals :
     /\ (S.k = "n" => mode \in {"wait-for-bed", "wait-for-hotend", "wait-for-chamber"})
     /\ Fire("halt", [A0 EXCEPT !.mode = mode, !.S = S], DoHalt(rep, mode, S)) /\ UNCHANGED <<ctx, ph>>
Pause == \E o \in BOOLEAN :
     Fire("pause", [A0 EXCEPT !.flag = o], DoHalt(rep, IF o THEN "optional-pause" ELSE "pause", NoneQ)) /\ UNCHANGED <<ctx, ph>>
Stop == \E o \in BOOLEAN :
     Fire("stop", [A0 EXCEPT !.flag = o], DoHalt(rep, IF o THEN "end-with-reset" ELSE "end-without-reset", NoneQ)) /\ UNCHANGED <<ctx, ph>>
Wait == Fire("wait", A0, DoHalt(rep, "wait-for-motion", NoneQ)) /\ UNCHANGED <<ctx, ph>>
Emergency == \E o \in BOOLEAN :
     Fire("emergency_halt", [A0 EXCEPT !.flag = o], DoEmergency(rep, o)) /\ UNCHANGED <<ctx, ph>>
SetPower == \E v \in Vals : Fire("set_tool_power", [A0 EXCEPT !.val = Q(v)], DoSetPower(rep, v)) /\ UNCHANGED <<ctx, ph>>
SetFeed  == \E v \in Vals : Fire("set_feed_rate", [A0 EXCEPT !.val = Q(v)], DoSetFeed(rep, v)) /\ UNCHANGED <<ctx, ph>>
SetTemp(which) ==
  \E v \in Vals : Fire("set_" \o which \o "_temperature", [A0 EXCEPT !.val = Q(v)], DoSetTemp(rep, which, v)) /\ UNCHANGED <<ctx, ph>>

SetBoundsAxes ==
  \E b \in BoxSet :
     /\ ~rep.bounds.axes.set /\ "axes" \in BoundNames
     /\ Fire("set_bounds", [A0 EXCEPT !.name = "axes", !.lo3 = <<Q(b[1]), Q(b[1]), Q(b[1])>>, !.hi3 = <<Q(b[2]), Q(b[2]), Q(b[2])>>],
             DoSetBoundsAxes(rep, <<b[1], b[1], b[1]>>, <<b[2], b[2], b[2]>>))
     /\ UNCHANGED <<ctx, ph>>
SetBoundsScalar(name) ==
  \E b \in RangeSet :
     /\ ~rep.bounds[BoundKey(name)].set /\ name \in BoundNames
     /\ Fire("set_bounds", [A0 EXCEPT !.name = name, !.lo = Q(b[1]), !.hi = Q(b[2])], DoSetBoundsScalar(rep, name, b[1], b[2]))
     /\ UNCHANGED <<ctx, ph>>

Modal(call, mode) == Fire(call, [A0 EXCEPT !.mode = mode], DoModal(rep, call, mode)) /\ UNCHANGED <<ctx, ph>>
Modals ==
  \/ \E m \in {"xy", "zx", "yz"} : Modal("set_plane", m)
  \/ \E m \in {"1/time", "units/min", "units/rev"} : Modal("set_feed_mode", m)
  \/ \E m \in {"absolute", "relative"} : Modal("set_extrusion_mode", m)
  \/ \E m \in {"inches", "millimeters"} : Modal("set_length_units", m)
StateOnly(call) ==
  \E m \in StateModes(call) \cup {"bogus"} :
     Fire(call, [A0 EXCEPT !.mode = m], DoStateOnly(rep, call, m)) /\ UNCHANGED <<ctx, ph>>
SetResolution == \E v \in Vals : Fire("set_resolution", [A0 EXCEPT !.val = Q(v)], DoSetResolution(rep, v)) /\ UNCHANGED <<ctx, ph>>
Sleep == \E v \in Vals : Fire("sleep", [A0 EXCEPT !.val = Q(v)], DoSleep(rep, v)) /\ UNCHANGED <<ctx, ph>>
Fan == \E v \in Vals, n \in {-1, 0, 2} :
         Fire("set_fan_speed", [A0 EXCEPT !.val = Q(v), !.val2 = Q(n)], DoFan(rep, v, n, 255)) /\ UNCHANGED <<ctx, ph>>
Query == \E m \in {"position", "temperature", "bogus"} :
           Fire("query", [A0 EXCEPT !.mode = m], DoQuery(rep, m)) /\ UNCHANGED <<ctx, ph>>
Comment == Fire("comment", A0, DoComment(rep)) /\ UNCHANGED <<ctx, ph>>

AddHook    == /\ ~ph /\ Fire("add_probe_hook", A0, Ok(rep, <<>>)) /\ ph' = TRUE /\ UNCHANGED ctx
RemoveHook == /\ ph /\ Fire("remove_probe_hook", A0, Ok(rep, <<>>)) /\ ph' = FALSE /\ UNCHANGED ctx

Init ==
  /\ rep = InitRep /\ ctx = <<>> /\ mach = InitMachine /\ sb = "none" /\ ph = FALSE
  /\ ev = [call |-> "init", out |-> "ok", a |-> A0, lines |-> <<>>, rep |-> InitRep, hooks |-> <<>>, ph |-> FALSE, sh |-> FALSE, fault |-> FALSE]

Next ==
  \/ Move("move") \/ Move("rapid") \/ Bypass("move_absolute") \/ Bypass("rapid_absolute")
  \/ SetAxis \/ Home \/ Probe \/ SetMode \/ CtxEnter \/ CtxExit
  \/ ToolOn("tool_on") \/ ToolOn("power_on") \/ ToolOff("tool_off") \/ ToolOff("power_off")
  \/ CoolOn \/ CoolOff \/ ToolChange \/ Halt \/ Pause \/ Stop \/ Wait \/ Emergency
  \/ SetPower \/ SetFeed \/ SetTemp("bed") \/ SetTemp("hotend") \/ SetTemp("chamber")
  \/ SetBoundsAxes \/ SetBoundsScalar("feed-rate") \/ SetBoundsScalar("tool-power")
  \/ SetBoundsScalar("tool-number") \/ SetBoundsScalar("bed-temperature")
  \/ Modals \/ AddHook \/ RemoveHook
  \/ StateOnly("set_time_units") \/ StateOnly("set_temperature_units") \/ StateOnly("set_direction")
  \/ SetResolution \/ Sleep \/ Fan \/ Query \/ Comment

Spec == Init /\ [][Next]_vars

-----------------------------------------------------------------------------
(* Contract clauses as action properties: e = ev', p = rep, m = mach, m2 = mach' *)
P(op(_, _, _, _, _)) == op(ev', rep, mach, mach', MM)

AP_C01_Pos      == [][P(C01_Pos)]_vars
AP_C01_Mode     == [][P(C01_Mode)]_vars
AP_C01_Carries  == [][P(C01_Carries)]_vars
AP_C02_Safe     == [][P(C02_Safe)]_vars
AP_C02_Raises   == [][P(C02_Raises)]_vars
AP_C02_OnlyDoc  == [][P(C02_OnlyDoc)]_vars
AP_C03_Words    == [][P(C03_Words)]_vars
AP_C03_Reject   == [][P(C03_Reject)]_vars
AP_C05_NoEmit   == [][P(C05_NoEmit) \/ SigOf("C05_NoEmit", ev', rep) # ""]_vars   \* modulo finding F16
AP_C05_NoEmitStrict == [][P(C05_NoEmit)]_vars                                      \* expected to FAIL (F16)
AP_C05_NoEffect == [][P(C05_NoEffect)]_vars
AP_C06_Off      == [][P(C06_Off)]_vars
AP_C07_Tool     == [][C07_Tool(ev', rep, mach, mach', MM, sb')]_vars
AP_C07_Coolant  == [][P(C07_Coolant)]_vars
AP_C07_Modal    == [][P(C07_Modal)]_vars
AP_C07_Temps    == [][P(C07_Temps)]_vars
AP_C07_Params   == [][P(C07_Params)]_vars
AP_C20_Count    == [][P(C20_Count)]_vars
AP_C20_Geometry == [][P(C20_Geometry)]_vars
AP_C20_Params   == [][P(C20_Params)]_vars

\* state constraint: keep tracked and machine coordinates in a small window
PosBound == 4
Bounded ==
  /\ \A i \in 1..3 : rep.pos[i].k = "n" => (rep.pos[i].v >= -2 /\ rep.pos[i].v <= PosBound)
  /\ \A a \in AxisSet : mach.pos[a] >= -3 /\ mach.pos[a] <= PosBound + 1

\* the representation invariant the recorder relies on
TypeOK == /\ rep.rel = rep.srel
          /\ rep.halt = "off"
          /\ Len(ctx) <= MaxCtx
=============================================================================
