-------------------------- MODULE BuilderImplTrace --------------------------
(***************************************************************************)
(* Implementation-level trace validation for the builder: is every call of *)
(* a recorded execution exactly what BuilderImpl computes from the state   *)
(* before it?  For each recorded call with arguments on the exact grid the *)
(* model's own operator (DoMove, DoBypass, DoHalt, ...) is applied to the   *)
(* recorded snapshot before the call and its result -- outcome, emitted     *)
(* words, complete snapshot -- is compared with what the real code did.     *)
(* Mismatches are DRIFT between model and code (printed as <<"X", ...>>,    *)
(* reported as a NOTE, never an alarm); calls the model does not cover      *)
(* (non-finite arguments, interpolated paths, user hooks) are skipped.      *)
(* Only traces recorded with decimal_places = 0 are compared (the model     *)
(* lives on the integer grid with unit 1).                                   *)
(***************************************************************************)
EXTENDS BuilderImpl, Json, IOUtils

Traces == JsonDeserialize(IOEnv.TRACE_FILE)
VARIABLES tid, l, prev, cstack, hk, nchk
tvars == <<tid, l, prev, cstack, hk, nchk>>

Plain(q) == q.k = "none" \/ (q.k = "n" /\ q.s = 0)
PlainAx(a) == \A i \in 1..3 : Plain(a.ax[i])
NoneQ4 == [k |-> "none", v |-> 0, s |-> 0, t |-> FALSE]
Absent(q) == q.k = "none"

\* the model's prediction for one recorded call, or [skip |-> TRUE]
Skip == [skip |-> TRUE, rep |-> prev, lines |-> <<>>, out |-> "", hooks |-> <<>>]
Use(r) == [skip |-> FALSE, rep |-> r.rep, lines |-> r.lines, out |-> r.out, hooks |-> r.hooks]

Predict(e) ==
  LET a == e.a  c == e.call IN
  IF ~(PlainAx(a) /\ Plain(a.F) /\ Plain(a.S) /\ Plain(a.E) /\ Plain(a.R) /\ Plain(a.val) /\ Plain(a.val2)
       /\ Plain(a.lo) /\ Plain(a.hi) /\ (\A i \in 1..3 : Plain(a.lo3[i]) /\ Plain(a.hi3[i]))) \/ a.haspt THEN Skip
  ELSE CASE c \in {"move", "rapid"} /\ Absent(a.R) -> Use(DoMove(prev, c = "move", a.ax, a.F, a.S, a.E))
    [] c \in {"move_absolute", "rapid_absolute"} /\ Absent(a.R) -> Use(DoBypass(prev, c = "move_absolute", a.ax, a.F, a.S, a.E))
    [] c = "set_axis" /\ Absent(a.F) /\ Absent(a.S) -> Use(DoSetAxis(prev, a.ax, a.E))
    [] c = "auto_home" /\ Absent(a.F) /\ Absent(a.S) /\ Absent(a.E) -> Use(DoHome(prev, a.ax))
    [] c = "probe" /\ Absent(a.S) /\ Absent(a.E) /\ a.mode \in {"towards", "towards-no-error", "away", "away-no-error"}
                  /\ (\E i \in 1..3 : a.ax[i].k = "n") -> Use(DoProbe(prev, a.mode, a.ax, a.F))
    [] c = "set_distance_mode" /\ a.mode \in {"absolute", "relative"} -> Use(DoSetMode(prev, a.mode = "relative"))
    [] c = "ctx_enter" -> Use(IF (a.mode = "relative") # prev.rel THEN DoSetMode(prev, a.mode = "relative") ELSE Ok(prev, <<>>))
    [] c = "ctx_exit" /\ cstack # <<>> ->
         Use(IF cstack[Len(cstack)] # prev.rel THEN DoSetMode(prev, cstack[Len(cstack)]) ELSE Ok(prev, <<>>))
    [] c \in {"tool_on", "power_on"} /\ a.val.k = "n" -> Use(DoToolOn(prev, c, a.mode, a.val.v))
    [] c \in {"tool_off", "power_off"} -> Use(DoToolOff(prev, c))
    [] c = "coolant_on" -> Use(DoCoolOn(prev, a.mode))
    [] c = "coolant_off" -> Use(DoCoolOff(prev))
    [] c = "tool_change" /\ a.val.k = "n" -> Use(DoToolChange(prev, a.mode, a.val.v))
    [] c = "halt" /\ (Absent(a.S) \/ Absent(a.R)) -> Use(DoHalt(prev, a.mode, IF Absent(a.S) THEN a.R ELSE a.S))
    [] c = "pause" -> Use(DoHalt(prev, IF a.flag THEN "optional-pause" ELSE "pause", NoneQ4))
    [] c = "stop" -> Use(DoHalt(prev, IF a.flag THEN "end-with-reset" ELSE "end-without-reset", NoneQ4))
    [] c = "wait" -> Use(DoHalt(prev, "wait-for-motion", NoneQ4))
    [] c = "emergency_halt" -> Use(DoEmergency(prev, a.flag))
    [] c = "set_tool_power" /\ a.val.k = "n" -> Use(DoSetPower(prev, a.val.v))
    [] c = "set_feed_rate" /\ a.val.k = "n" -> Use(DoSetFeed(prev, a.val.v))
    [] c = "set_bed_temperature" /\ a.val.k = "n" -> Use(DoSetTemp(prev, "bed", a.val.v))
    [] c = "set_hotend_temperature" /\ a.val.k = "n" -> Use(DoSetTemp(prev, "hotend", a.val.v))
    [] c = "set_chamber_temperature" /\ a.val.k = "n" -> Use(DoSetTemp(prev, "chamber", a.val.v))
    [] c \in {"set_plane", "set_feed_mode", "set_extrusion_mode", "set_length_units"} -> Use(DoModal(prev, c, a.mode))
    [] c \in {"set_time_units", "set_temperature_units", "set_direction"} -> Use(DoStateOnly(prev, c, a.mode))
    [] c = "set_resolution" /\ a.val.k = "n" -> Use(DoSetResolution(prev, a.val.v))
    [] c = "sleep" /\ a.val.k = "n" -> Use(DoSleep(prev, a.val.v))
    [] c = "set_fan_speed" /\ a.val.k = "n" ->
         Use(DoFan(prev, a.val.v, IF a.val2.k = "n" THEN a.val2.v ELSE 0, 255 * Traces[tid].meta.U))
    [] c = "query" -> Use(DoQuery(prev, a.mode))
    [] c = "comment" -> Use(DoComment(prev))
    [] c = "set_bounds" /\ a.name = "axes" /\ (\A i \in 1..3 : a.lo3[i].k = "n" /\ a.hi3[i].k = "n") ->
         Use(DoSetBoundsAxes(prev, <<a.lo3[1].v, a.lo3[2].v, a.lo3[3].v>>, <<a.hi3[1].v, a.hi3[2].v, a.hi3[3].v>>))
    [] c = "set_bounds" /\ a.name # "axes" /\ a.lo.k = "n" /\ a.hi.k = "n" -> Use(DoSetBoundsScalar(prev, a.name, a.lo.v, a.hi.v))
    [] c \in {"add_probe_hook", "remove_probe_hook"} -> Use(Ok(prev, <<>>))
    [] OTHER -> Skip

\* halt(): the recorded R word is emitted as R, the model writes S; compare words up to that letter
WordSet(ln) == {<<IF ln.ws[i].l = "R" THEN "S" ELSE ln.ws[i].l, ln.ws[i].v>> : i \in DOMAIN ln.ws}
SameLines(a, b) == Len(a) = Len(b) /\ \A i \in DOMAIN a : WordSet(a[i]) = WordSet(b[i])

\* a resolution the model does not track (converted by a change of length units) is taken from the recording
Adopt(mrep, erep) == IF mrep.res.k = "scaled" THEN [mrep EXCEPT !.res = erep.res] ELSE mrep

Init0 ==
  /\ tid \in 1..Len(Traces) /\ l = 1 /\ prev = Traces[tid].init /\ cstack = <<>> /\ hk = FALSE /\ nchk = 0
  /\ rep = InitRep /\ ctx = <<>> /\ mach = InitMachine /\ sb = "none" /\ ph = FALSE
  /\ ev = [call |-> "init", out |-> "ok", a |-> A0, lines |-> <<>>, rep |-> InitRep, hooks |-> <<>>, ph |-> FALSE, sh |-> FALSE, fault |-> FALSE]
StepT ==
  /\ l <= Len(Traces[tid].ev)
  /\ LET e == Traces[tid].ev[l]
         usable == Traces[tid].meta.dp = 0 /\ Traces[tid].meta.exact /\ ~e.sh /\ ~e.fault
     IN /\ ph' = e.ph                                 \* the model's hook flag for the NEXT call: registered after this one
        /\ LET m == IF usable THEN Predict(e) ELSE Skip IN
           /\ IF m.skip THEN nchk' = nchk
              ELSE /\ nchk' = nchk + 1
                   /\ IF m.out # e.out THEN PrintT(<<"X", tid, l, "outcome", e.call>>)
                      ELSE IF ~SameLines(m.lines, e.lines) THEN PrintT(<<"X", tid, l, "lines", e.call>>)
                      ELSE IF Adopt(m.rep, e.rep) # e.rep THEN PrintT(<<"X", tid, l, "state", e.call>>)
                      ELSE IF Len(m.hooks) # Len(e.hooks) THEN PrintT(<<"X", tid, l, "hooks", e.call>>)
                      ELSE TRUE
        /\ prev' = e.rep
        /\ hk' = e.ph
        /\ cstack' = IF e.call = "ctx_enter" /\ e.out = "ok" THEN Append(cstack, prev.rel)
                     ELSE IF e.call = "ctx_exit" /\ cstack # <<>> THEN SubSeq(cstack, 1, Len(cstack) - 1)
                     ELSE cstack
  /\ l' = l + 1
  /\ UNCHANGED <<tid, rep, ctx, mach, sb, ev>>
DoneT ==
  /\ l = Len(Traces[tid].ev) + 1
  /\ PrintT(<<"C", tid, nchk>>)
  /\ l' = l + 1
  /\ UNCHANGED <<tid, prev, cstack, hk, nchk, rep, ctx, mach, sb, ph, ev>>
SpecT == Init0 /\ [][StepT \/ DoneT]_<<tvars, vars>>
=============================================================================
