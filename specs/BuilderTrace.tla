---------------------------- MODULE BuilderTrace ----------------------------
(***************************************************************************)
(* Trace validation for the builder family: one linear behaviour per       *)
(* recorded execution of the real GCodeBuilder.  Each step consumes one    *)
(* recorded public call, runs the interpreter (Machine!Exec) on the lines  *)
(* that call emitted and evaluates every contract clause of Builder.tla.   *)
(* Steps are always enabled: a failing clause is reported (PrintT) and the *)
(* rest of the trace is still checked.                                      *)
(*   <<"F", tid, step, clause, sig>> clause evaluated to FALSE; sig names   *)
(*                                    the known-finding signature it matches *)
(*   <<"D", tid, steps, counts>>     trace finished; counts = how often     *)
(*                                    each clause's antecedent held         *)
(***************************************************************************)
EXTENDS Builder, Json, IOUtils, TLC

Traces == JsonDeserialize(IOEnv.TRACE_FILE)

VARIABLES tid, l, mach, prev, sb, cnt, esw
vars == <<tid, l, mach, prev, sb, cnt, esw>>

Clauses == {"C01_Pos", "C01_Mode", "C01_Carries", "C02_Safe", "C02_Raises", "C02_OnlyDoc",
            "C03_Words", "C03_Reject", "C03_NaN", "C05_NoEmit", "C05_NoEffect",
            "C06_Off", "C07_Tool", "C07_Coolant", "C07_Modal", "C07_Temps", "C07_Params",
            "C08_Lex", "CV_Convert", "CV_Pure", "C20_Count", "C20_Geometry", "C20_Params", "C20_Extrusion", "C20_ExtrusionF14"}

Holds(c, e, p, m, m2, M, s) ==
  CASE c = "C01_Pos"      -> C01_Pos(e, p, m, m2, M)
    [] c = "C01_Mode"     -> C01_Mode(e, p, m, m2, M)
    [] c = "C01_Carries"  -> C01_Carries(e, p, m, m2, M)
    [] c = "C02_Safe"     -> C02_Safe(e, p, m, m2, M)
    [] c = "C02_Raises"   -> C02_Raises(e, p, m, m2, M)
    [] c = "C02_OnlyDoc"  -> C02_OnlyDoc(e, p, m, m2, M)
    [] c = "C03_Words"    -> C03_Words(e, p, m, m2, M)
    [] c = "C03_Reject"   -> C03_Reject(e, p, m, m2, M)
    [] c = "C03_NaN"      -> C03_NaN(e, p, m, m2, M)
    [] c = "C05_NoEmit"   -> C05_NoEmit(e, p, m, m2, M)
    [] c = "C05_NoEffect" -> C05_NoEffect(e, p, m, m2, M)
    [] c = "C06_Off"      -> C06_Off(e, p, m, m2, M)
    [] c = "C07_Tool"     -> C07_Tool(e, p, m, m2, M, s)
    [] c = "C07_Coolant"  -> C07_Coolant(e, p, m, m2, M)
    [] c = "C07_Modal"    -> C07_Modal(e, p, m, m2, M)
    [] c = "C07_Temps"    -> C07_Temps(e, p, m, m2, M)
    [] c = "C07_Params"   -> C07_Params(e, p, m, m2, M)
    [] c = "C08_Lex"      -> \A i \in DOMAIN e.lines : \A j \in DOMAIN e.lines[i].ws : e.lines[i].ws[j].ok
    [] c = "CV_Convert"   -> CV_Convert(e, p, m, m2, M)
    [] c = "CV_Pure"      -> CV_Pure(e, p, m, m2, M)
    [] c = "C20_Count"    -> C20_Count(e, p, m, m2, M)
    [] c = "C20_Geometry" -> C20_Geometry(e, p, m, m2, M)
    [] c = "C20_Params"   -> C20_Params(e, p, m, m2, M)
    [] c = "C20_Extrusion" -> C20_Extrusion(e, p, m, m2, M, esw)
    [] c = "C20_ExtrusionF14" -> C20_ExtrusionF14(e, p, m, m2, M, esw)

\* non-vacuity: the situations in which the clause says something
Ante(c, e, p, m, m2, M, s) ==
  CASE c = "C01_Pos"      -> C01_Pos_Ante(e, p, m, m2, M)
    [] c = "C01_Carries"  -> C01_Carries_Ante(e, p, m, m2, M)
    [] c = "C02_Safe"     -> e.lines # <<>>
    [] c = "C02_Raises"   -> WouldBeUnsafe(e, p)
    [] c = "C02_OnlyDoc"  -> Rejected(e)
    [] c = "C03_Words"    -> e.lines # <<>> /\ (\E k \in {"feed", "power", "toolnum", "bed", "hotend", "chamber"} : p.bounds[k].set \/ p.bounds.axes.set)
    [] c = "C03_Reject"   -> C03_Reject_Ante(e, p, m, m2, M)
    [] c = "C03_NaN"      -> (IsNaN(e.a.val) \/ IsNaN(e.a.F) \/ IsNaN(e.a.S) \/ IsNaN(e.a.R) \/ \E i \in 1..3 : IsNaN(e.a.ax[i]))
    [] c = "C05_NoEmit"   -> C05_NoEffect_Ante(e, p, m, m2, M)
    [] c = "C05_NoEffect" -> C05_NoEffect_Ante(e, p, m, m2, M)
    [] c = "C06_Off"      -> C06_Ante(e, p, m, m2, M)
    [] c = "C07_Tool"     -> e.rep.tool
    [] c = "C07_Coolant"  -> e.rep.coolact
    [] c = "C07_Temps"    -> m2.bed.set \/ m2.hotend.set \/ m2.chamber.set
    [] c = "C07_Params"   -> \E pl \in ParamLetters : m2.params[pl].set
    [] c = "CV_Convert"   -> e.call \in CV_Calls /\ e.out = "ok"
    [] c = "CV_Pure"      -> e.call \in CV_Calls
    [] c = "C20_Count"    -> C20_Ante(e, p, m, m2, M) \/ (~e.ph /\ G1Lines(e) # {})
    [] c = "C20_Geometry" -> C20_Ante(e, p, m, m2, M)
    [] c = "C20_Params"   -> C20_Ante(e, p, m, m2, M)
    [] c = "C20_Extrusion" -> e.eh /\ e.out = "ok" /\ ExtrusionWalk(e, m, esw).n > 0
    [] c = "C20_ExtrusionF14" -> e.eh /\ e.out = "ok" /\ ExtrusionWalk(e, m, esw).n > 0
    [] OTHER              -> TRUE

Init ==
  /\ tid \in 1..Len(Traces)
  /\ l = 1
  /\ mach = InitMachine
  /\ prev = Traces[tid].init
  /\ sb = "none" /\ esw = FALSE
  /\ cnt = [c \in Clauses |-> 0]

Step ==
  /\ l <= Len(Traces[tid].ev)
  /\ LET T  == Traces[tid]
         e  == T.ev[l]
         m2 == Exec(mach, e.lines)
         s2 == IF (e.out = "ok" \/ e.fault) /\ e.call \in {"tool_on", "power_on"} THEN e.call ELSE sb
         bad == {c \in Clauses : ~Holds(c, e, prev, mach, m2, T.meta, s2)}
     IN /\ \A c \in bad : PrintT(<<"F", tid, l, c, SigOf(c, e, prev)>>)
        /\ mach' = m2
        /\ prev' = e.rep
        /\ sb' = s2
        /\ esw' = ExtrusionWalk(e, mach, esw).esw
        /\ cnt' = [c \in Clauses |-> cnt[c] + IF Ante(c, e, prev, mach, m2, T.meta, s2) THEN 1 ELSE 0]
  /\ l' = l + 1
  /\ UNCHANGED tid

\* cross-oracle (a note, never a verdict): the bundled printrun.gcoder analyser, fed the same lines, ends where
\* the interpreter of Machine.tla ends, on the axes the machine knows
GcoderAgrees(T) ==
  ~T.meta.gcoder.ok \/
  (/\ T.meta.gcoder.rel = mach.rel
   /\ \A a \in AxisSet : mach.known[a] => 2 * Abs(T.meta.gcoder.pos[AxIdx[a]] - mach.pos[a]) <= mach.slack[a] + 2)
Done ==
  /\ l = Len(Traces[tid].ev) + 1
  /\ IF GcoderAgrees(Traces[tid]) THEN TRUE ELSE PrintT(<<"N", tid, "gcoder">>)
  /\ PrintT(<<"D", tid, l - 1, cnt>>)
  /\ l' = l + 1
  /\ UNCHANGED <<tid, mach, prev, sb, cnt, esw>>

Next == Step \/ Done
Spec == Init /\ [][Next]_vars
=============================================================================
