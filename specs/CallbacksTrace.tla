---------------------------- MODULE CallbacksTrace ----------------------------
(***************************************************************************)
(* Beyond the listed properties: the callback interface of the bundled     *)
(* sender (printrun/eventhandler.py: PrinterEventHandler, called from      *)
(* printcore).  The recorded executions are those of the job life cycle    *)
(* (SenderJobsImplTrace) with a handler attached that logs, under the same  *)
(* lock as the OS-boundary events, every callback it receives.              *)
(* Contract, as the handler's docstrings state it:                          *)
(*   CB_Send      on_send(command) "on every command sent": each            *)
(*                transmission was announced, with exactly its text, and    *)
(*                nothing announced stays untransmitted                     *)
(*   CB_Recv      on_recv(line) "on every line read", in order              *)
(*   CB_StartEnd  on_start / on_end alternate, one pair per print thread;   *)
(*                on_start(resume) says TRUE exactly after resume()         *)
(*   CB_PrePrint  on_preprintsend(gline, index) walks the queue: indices    *)
(*                0, 1, 2, ... of each job, each once                       *)
(*   CB_PrintSend on_printsend(gline) once for every job line when it is    *)
(*                first transmitted (not for retransmissions), with the     *)
(*                line's text                                               *)
(* Failures are notes (not a listed property).                              *)
(***************************************************************************)
EXTENDS Integers, Sequences, FiniteSets, SequencesExt, Json, IOUtils, TLC

Traces == JsonDeserialize(IOEnv.TRACE_FILE)
VARIABLES tid, l, fw, cnt, st
vars == <<tid, l, fw, cnt, st>>
S == INSTANCE SenderTrace            \* byte-level lexing of transmissions (Frame, IsM110)

Clauses == {"CB_Send", "CB_Recv", "CB_StartEnd", "CB_PrePrint", "CB_PrintSend"}
NoLF(t) == IF t # <<>> /\ t[Len(t)] = 10 THEN SubSeq(t, 1, Len(t) - 1) ELSE t
JobTx(e) == S!Frame(e.text).ok /\ S!Frame(e.text).n >= 0

St0 == [sends |-> <<>>, unrecv |-> <<>>, running |-> FALSE, resumed |-> FALSE, nextIdx |-> 0,
        pend |-> <<>>, seen |-> {}]

Holds(c, e) ==
  CASE c = "CB_Send" ->
         /\ (e.k = "tx" => (st.sends # <<>> /\ Head(st.sends) = NoLF(e.text)))
         /\ (e.k = "end" => st.sends = <<>>)
    [] c = "CB_Recv" ->
         /\ ((e.k = "cb" /\ e.name = "recv") => (st.unrecv # <<>> /\ Head(st.unrecv) = e.text))
         /\ (e.k = "end" => st.unrecv = <<>>)
    [] c = "CB_StartEnd" ->
         /\ ((e.k = "cb" /\ e.name = "start") => (~st.running /\ e.flag = st.resumed))
         /\ ((e.k = "cb" /\ e.name = "end") => st.running)
         /\ (e.k = "end" => ~st.running)
    [] c = "CB_PrePrint" -> (e.k = "cb" /\ e.name = "preprint") => e.idx = st.nextIdx
    [] c = "CB_PrintSend" ->
         /\ ((e.k = "cb" /\ e.name = "printsend") => (st.pend # <<>> /\ st.pend[1] = e.text))
         /\ ((e.k = "tx" \/ e.k = "end") => st.pend = <<>>)       \* the previous first transmission was reported
Ante(c, e) ==
  CASE c = "CB_Send" -> e.k = "tx"
    [] c = "CB_Recv" -> e.k = "cb" /\ e.name = "recv"
    [] c = "CB_StartEnd" -> e.k = "cb" /\ e.name \in {"start", "end"}
    [] c = "CB_PrePrint" -> e.k = "cb" /\ e.name = "preprint"
    [] c = "CB_PrintSend" -> e.k = "cb" /\ e.name = "printsend"

NextSt(e) ==
  CASE e.k = "cb" /\ e.name = "send" -> [st EXCEPT !.sends = Append(st.sends, e.text)]
    [] e.k = "tx" ->
         [st EXCEPT !.sends = IF st.sends = <<>> THEN <<>> ELSE Tail(st.sends),
                    !.pend = IF JobTx(e) /\ S!Frame(e.text).n \notin st.seen THEN <<S!Frame(e.text).cmd>> ELSE <<>>,
                    !.seen = IF JobTx(e) THEN st.seen \cup {S!Frame(e.text).n} ELSE st.seen]
    [] e.k = "rel" -> [st EXCEPT !.unrecv = Append(st.unrecv, NoLF(e.text))]
    [] e.k = "cb" /\ e.name = "recv" -> [st EXCEPT !.unrecv = IF st.unrecv = <<>> THEN <<>> ELSE Tail(st.unrecv)]
    [] e.k = "cb" /\ e.name = "start" -> [st EXCEPT !.running = TRUE, !.resumed = FALSE]
    [] e.k = "cb" /\ e.name = "end" -> [st EXCEPT !.running = FALSE]
    [] e.k = "cb" /\ e.name = "preprint" -> [st EXCEPT !.nextIdx = e.idx + 1]
    [] e.k = "cb" /\ e.name = "printsend" -> [st EXCEPT !.pend = <<>>]
    [] e.k = "resume" -> [st EXCEPT !.resumed = TRUE]
    [] e.k = "start" -> [st EXCEPT !.nextIdx = 0, !.seen = {}]
    [] OTHER -> st

Init == /\ tid \in 1..Len(Traces) /\ l = 1 /\ st = St0 /\ fw = 0 /\ cnt = [c \in Clauses |-> 0]
Step ==
  /\ l <= Len(Traces[tid].ev)
  /\ LET e == Traces[tid].ev[l]
         bad == {c \in Clauses : ~Holds(c, e)}
     IN /\ \A c \in bad : PrintT(<<"F", tid, l, c, "">>)
        /\ st' = NextSt(e)
        /\ cnt' = [c \in Clauses |-> cnt[c] + IF Ante(c, e) THEN 1 ELSE 0]
  /\ l' = l + 1 /\ UNCHANGED <<tid, fw>>
Done == /\ l = Len(Traces[tid].ev) + 1 /\ PrintT(<<"D", tid, l - 1, cnt>>) /\ l' = l + 1 /\ UNCHANGED <<tid, fw, cnt, st>>
Spec == Init /\ [][Step \/ Done]_vars
=============================================================================
