--------------------------- MODULE CommentSafety ---------------------------
(***************************************************************************)
(* Contract for C09: free text supplied by the caller ends up entirely     *)
(* inside a comment.  `Exec(bytes, style)` is what a machine executes of   *)
(* an output: lines are cut at CR / LF (CR LF is one break), comments are  *)
(* removed under the configured style, blanks are normalised.               *)
(*   style = [open, close]   byte sequences; close = <<>> for styles that   *)
(*                           run to the end of the line (";", "//", "#")    *)
(* The property: the same calls with the caller's text and with an          *)
(* innocuous text execute the same thing, line for line.                     *)
(***************************************************************************)
EXTENDS Integers, Sequences, FiniteSets, SequencesExt

LF == 10
CR == 13
Blank(b) == b = 32 \/ b = 9

\* first index >= from at which p occurs in s, or 0
FindSub(s, p, from) ==
  LET hits == {i \in from..(Len(s) - Len(p) + 1) : SubSeq(s, i, i + Len(p) - 1) = p} IN
  IF p = <<>> \/ hits = {} THEN 0 ELSE CHOOSE i \in hits : \A j \in hits : i <= j

\* cut at CR, LF, CR LF; a trailing break does not open another line
SplitLines(s) ==
  LET step(acc, b) ==
        IF b = LF /\ acc.cr THEN [acc EXCEPT !.cr = FALSE]                                   \* LF of a CR LF pair
        ELSE IF b = LF \/ b = CR THEN [lines |-> Append(acc.lines, acc.cur), cur |-> <<>>, cr |-> (b = CR)]
        ELSE [acc EXCEPT !.cur = Append(acc.cur, b), !.cr = FALSE]
      r == FoldLeft(step, [lines |-> <<>>, cur |-> <<>>, cr |-> FALSE], s)
  IN IF r.cur = <<>> THEN r.lines ELSE Append(r.lines, r.cur)

RECURSIVE StripLine(_, _)
StripLine(line, style) ==
  LET i == FindSub(line, style.open, 1) IN
  IF i = 0 THEN line
  ELSE IF style.close = <<>> THEN SubSeq(line, 1, i - 1)
  ELSE LET j == FindSub(line, style.close, i + Len(style.open)) IN
       IF j = 0 THEN SubSeq(line, 1, i - 1)
       ELSE SubSeq(line, 1, i - 1) \o <<32>> \o StripLine(SubSeq(line, j + Len(style.close), Len(line)), style)

\* collapse blanks, trim
Normalise(line) ==
  LET step(acc, b) ==
        IF Blank(b) THEN (IF acc = <<>> \/ acc[Len(acc)] = 32 THEN acc ELSE Append(acc, 32))
        ELSE Append(acc, b)
      r == FoldLeft(step, <<>>, line)
  IN IF r # <<>> /\ r[Len(r)] = 32 THEN SubSeq(r, 1, Len(r) - 1) ELSE r

Exec(bytes, style) ==
  LET ls == SplitLines(bytes) IN [i \in 1..Len(ls) |-> Normalise(StripLine(ls[i], style))]

Safe(out, ref, style) == Exec(out, style) = Exec(ref, style)
=============================================================================
