------------------------- MODULE CommentSafetyImpl -------------------------
(***************************************************************************)
(* Implementation-shaped model of DefaultFormatter.comment / command /     *)
(* line (formatters/default_formatter.py): the comment template            *)
(* "<open> {} <close>" or "<open> {}", substitution of the caller's text,   *)
(* rstrip, line ending.  With Sanitize = TRUE the text is first brought to  *)
(* one line and freed of the closing delimiter (the repaired code); FALSE   *)
(* is the behaviour before the repair (finding F6).                          *)
(* TLC enumerates every payload over the token alphabet up to MaxToks       *)
(* tokens, for every style.                                                  *)
(***************************************************************************)
EXTENDS CommentSafety, TLC

CONSTANTS Styles,     \* set of [open, close]
          Tokens,     \* set of byte sequences
          MaxToks, Sanitize

VARIABLES style, payload, depth
vars == <<style, payload, depth>>

Prefix  == <<71, 49, 32, 88, 49>>          \* "G1 X1"  (the executable part of the statement)
Benign  == <<120>>                          \* "x"

\* str.splitlines()-and-join: every line break becomes one blank
OneLine(t) == [i \in 1..Len(t) |-> IF t[i] = LF \/ t[i] = CR THEN 32 ELSE t[i]]
RECURSIVE DropAll(_, _)
DropAll(t, p) ==
  LET i == FindSub(t, p, 1) IN
  IF i = 0 THEN t ELSE SubSeq(t, 1, i - 1) \o <<32>> \o DropAll(SubSeq(t, i + Len(p), Len(t)), p)
Clean(t, st) == IF ~Sanitize THEN t ELSE IF st.close = <<>> THEN OneLine(t) ELSE DropAll(OneLine(t), st.close)

Comment(t, st) == st.open \o <<32>> \o Clean(t, st) \o (IF st.close = <<>> THEN <<>> ELSE <<32>> \o st.close)
RStrip(s) == LET keep == {i \in DOMAIN s : ~(Blank(s[i]) \/ s[i] = LF \/ s[i] = CR)} IN
             IF keep = {} THEN <<>> ELSE SubSeq(s, 1, CHOOSE i \in keep : \A j \in keep : j <= i)
\* move(x=1, comment=t)  ->  "G1 X1 <comment>\n"
Statement(t, st) == RStrip(Prefix \o <<32>> \o Comment(t, st)) \o <<LF>>

Init == style \in Styles /\ payload = <<>> /\ depth = 0
Grow == /\ depth < MaxToks
        /\ \E tk \in Tokens : payload' = payload \o tk
        /\ depth' = depth + 1
        /\ UNCHANGED style
Spec == Init /\ [][Grow]_vars

\* C09 for this entry point
CommentStaysComment == Safe(Statement(payload, style), Statement(Benign, style), style)
=============================================================================
