------------------------- MODULE CommentSafetyTrace -------------------------
(***************************************************************************)
(* C09 on recorded executions: each event holds the bytes the real builder *)
(* wrote for one call sequence with the caller's text (`out`) and for the  *)
(* same calls with the text "x" (`ref`), under the trace's comment style.   *)
(***************************************************************************)
EXTENDS CommentSafety, Json, IOUtils, TLC

Traces == JsonDeserialize(IOEnv.TRACE_FILE)
VARIABLES tid, l, cnt
vars == <<tid, l, cnt>>
Clauses == {"C09_Same", "C09_Lines"}

Holds(c, T, e) ==
  CASE c = "C09_Same"  -> (e.res = "ok" /\ e.refres = "ok") => Safe(e.out, e.ref, T.meta.style)
    [] c = "C09_Lines" -> (e.res = "ok" /\ e.refres = "ok") => Len(SplitLines(e.out)) = Len(SplitLines(e.ref))
Ante(c, T, e) == e.res = "ok" /\ e.refres = "ok"

Init == tid \in 1..Len(Traces) /\ l = 1 /\ cnt = [c \in Clauses |-> 0]
Step ==
  /\ l <= Len(Traces[tid].ev)
  /\ LET T == Traces[tid]  e == T.ev[l]
         bad == {c \in Clauses : ~Holds(c, T, e)}
     IN /\ \A c \in bad : PrintT(<<"F", tid, l, c, "">>)
        /\ cnt' = [c \in Clauses |-> cnt[c] + IF Ante(c, T, e) THEN 1 ELSE 0]
  /\ l' = l + 1 /\ UNCHANGED tid
Done == /\ l = Len(Traces[tid].ev) + 1 /\ PrintT(<<"D", tid, l - 1, cnt>>) /\ l' = l + 1 /\ UNCHANGED <<tid, cnt>>
Next == Step \/ Done
Spec == Init /\ [][Next]_vars
=============================================================================
