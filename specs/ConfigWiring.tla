---------------------------- MODULE ConfigWiring ----------------------------
(***************************************************************************)
(* Beyond the listed properties: what a configuration turns into.          *)
(* GCodeCore.__init__ reads a GConfig (keyword arguments or a dictionary)   *)
(* and wires a formatter and a list of writers from it; every listed        *)
(* property is then stated "for all configurations".  This module is the    *)
(* wiring as a function of the configuration, transcribed from              *)
(* _initialize_formatter / _initialize_writers:                             *)
(*   writers, in this order:  a console writer iff print_lines is the       *)
(*       boolean True (a string does not count); a file writer iff an       *)
(*       output is given; a socket writer to host:port iff direct_write is  *)
(*       "socket"; a serial writer on port at baudrate iff it is "serial"   *)
(*   formatter: decimal places, comment style, line ending, axis letters    *)
(* TLC enumerates every configuration over the value sets below and prints  *)
(* one <<"W", configuration, expected wiring>> tuple per configuration; the *)
(* harness (harness/check_config.py) builds the REAL builder for each and   *)
(* compares what can be observed from outside: the writers' classes in      *)
(* registry order, the address the direct writer hands to the sender, and   *)
(* the bytes of one emitted line.                                           *)
(***************************************************************************)
EXTENDS Integers, Sequences, TLC

Outputs     == {"none", "stream"}
PrintLines  == {"false", "true", "string"}            \* print_lines = False | True | "yes"
DirectModes == {"off", "socket", "serial"}
Places      == {0, 3}
Styles      == {";", "("}
Endings     == {"os", "crlf"}
Labels      == {"XYZ", "ABC"}

Configs == [output : Outputs, print_lines : PrintLines, direct_write : DirectModes, dp : Places,
            style : Styles, eol : Endings, labels : Labels]

WritersOf(c) ==
     (IF c.print_lines = "true" THEN <<"console">> ELSE <<>>)
  \o (IF c.output # "none" THEN <<"file">> ELSE <<>>)
  \o (IF c.direct_write = "socket" THEN <<"socket">> ELSE <<>>)
  \o (IF c.direct_write = "serial" THEN <<"serial">> ELSE <<>>)

Wiring(c) == [writers |-> WritersOf(c), dp |-> c.dp, style |-> c.style, eol |-> c.eol, labels |-> c.labels,
              endpoint |-> CASE c.direct_write = "socket" -> "host:port/0"
                             [] c.direct_write = "serial" -> "port/baudrate"
                             [] OTHER -> "none"]

VARIABLES cfg, built
vars == <<cfg, built>>
Init == cfg \in Configs /\ built = FALSE
Build == ~built /\ built' = TRUE /\ UNCHANGED cfg /\ PrintT(<<"W", cfg, Wiring(cfg)>>)
Spec == Init /\ [][Build]_vars

\* properties of the wiring itself
AtMostOneDirect == \A c \in Configs : Len(SelectSeq(WritersOf(c), LAMBDA w : w \in {"socket", "serial"})) <= 1
OrderFixed == \A c \in Configs : \A i, j \in DOMAIN WritersOf(c) :
                 (i < j) => <<WritersOf(c)[i], WritersOf(c)[j]>> \in
                    {<<"console", "file">>, <<"console", "socket">>, <<"console", "serial">>, <<"file", "socket">>, <<"file", "serial">>}
SilentWhenUnconfigured == \A c \in Configs : (c.output = "none" /\ c.print_lines # "true" /\ c.direct_write = "off") => WritersOf(c) = <<>>
Inv == AtMostOneDirect /\ OrderFixed /\ SilentWhenUnconfigured
=============================================================================
