-------------------------- MODULE DirectWriteImpl --------------------------
(***************************************************************************)
(* Implementation-shaped model of direct writing to a device               *)
(* (writers/printrun_writer.py on top of printrun/printcore.py):            *)
(*   caller thread   PrintrunWriter.write(): _ack_event.clear(); send();    *)
(*                   _ack_event.wait(); _abort_on_device_error()            *)
(*   sender thread   printcore._sender(): priqueue.get(); _send()           *)
(*   reader thread   printcore._listen()/_readline(): recvcb (the writer's  *)
(*                   _on_device_message: ok -> ack, error -> error + ack),  *)
(*                   then `clear = True`                                    *)
(*   start-up        connect(): startprint(GCode([])) sends "M110", the     *)
(*                   empty job ends at once and sends a second "M110";      *)
(*                   connect() returns when printing is off and clear is    *)
(*                   set -- which the print thread does itself, so the ok   *)
(*                   of the second M110 may still be on its way             *)
(*                   (deviation StaleHandshakeOk, finding F12).             *)
(* The device answers every received line with exactly one acknowledgement  *)
(* ("ok", or an error line for the statements in ErrAt), possibly preceded  *)
(* by one unsolicited status line (for the statements in StatusAt).         *)
(***************************************************************************)
EXTENDS Integers, Sequences, FiniteSets, TLC

CONSTANTS NStmt,      \* statements 1..NStmt are written in order
          ErrAt,      \* subset of 1..NStmt answered with an error line
          StatusAt,   \* subset of 1..NStmt whose ack is preceded by a status line
          LossAllowed,         \* the connection may drop once, at any moment after connect()
          WaitWithoutListener  \* TRUE: the code before fix F20 -- _wait_for_acknowledgment() waits on the event alone

VARIABLES
  phase,        \* "m110a" | "m110b" | "ready" : start-up progress of connect()
  cpc, k,       \* caller: "idle" | "wait" ; current statement
  ack, deverr,  \* _ack_event, _device_error
  priq,         \* printcore.priqueue
  wire, replies,
  nhs,          \* handshake acks still owed by the device or in flight
  acked,        \* set of statements whose acknowledgement the reader has consumed
  rets,         \* sequence of [s, res] : returns of write()
  got,          \* statements the device received, in order
  stale,        \* a handshake ok was consumed after the first write() began
  listening     \* printcore's reader thread is alive (it ends on the read error / EOF of a dropped connection)
vars == <<phase, cpc, k, ack, deverr, priq, wire, replies, nhs, acked, rets, got, stale, listening>>

HS == 0   \* a handshake line (M110)

Init ==
  /\ phase = "m110a" /\ cpc = "idle" /\ k = 0 /\ ack = FALSE /\ deverr = FALSE
  /\ priq = <<>> /\ wire = <<HS>> /\ replies = <<>> /\ nhs = 1 /\ acked = {} /\ rets = <<>> /\ got = <<>>
  /\ stale = FALSE /\ listening = TRUE

\* print thread of the empty start-up job: after the first M110 is acknowledged the job ends, second M110 goes out
StartupEnds ==
  /\ phase = "m110b0"
  /\ phase' = "ready" /\ wire' = Append(wire, HS) /\ nhs' = nhs + 1
  /\ UNCHANGED <<cpc, k, ack, deverr, priq, replies, acked, rets, got, stale, listening>>

\* write(): clear the event, queue the statement
WriteCall ==
  /\ phase = "ready" /\ cpc = "idle" /\ k < NStmt
  /\ k' = k + 1 /\ cpc' = "wait" /\ ack' = FALSE
  /\ priq' = Append(priq, k + 1)
  /\ UNCHANGED <<phase, deverr, wire, replies, nhs, acked, rets, got, stale, listening>>

\* sender thread puts the statement on the wire
SenderSends ==
  /\ priq # <<>>
  /\ wire' = Append(wire, Head(priq)) /\ priq' = Tail(priq)
  /\ UNCHANGED <<phase, cpc, k, ack, deverr, replies, nhs, acked, rets, got, stale, listening>>

\* device: one line in, its replies out
Device ==
  /\ wire # <<>> /\ listening
  /\ LET s == Head(wire) IN
     /\ wire' = Tail(wire)
     /\ got' = IF s = HS THEN got ELSE Append(got, s)
     /\ replies' = replies \o
          (IF s # HS /\ s \in StatusAt THEN <<[t |-> "status", s |-> s]>> ELSE <<>>) \o
          <<[t |-> IF s # HS /\ s \in ErrAt THEN "error" ELSE "ok", s |-> s]>>
  /\ UNCHANGED <<phase, cpc, k, ack, deverr, priq, nhs, acked, rets, stale, listening>>

\* reader thread: one reply line through recvcb
Reader ==
  /\ replies # <<>> /\ listening
  /\ LET r == Head(replies) IN
     /\ replies' = Tail(replies)
     /\ IF r.t = "status" THEN UNCHANGED <<ack, deverr, acked, nhs, phase, stale>>
        ELSE /\ ack' = TRUE
             /\ deverr' = (deverr \/ r.t = "error")
             /\ acked' = IF r.s = HS THEN acked ELSE acked \cup {r.s}
             /\ nhs' = IF r.s = HS THEN nhs - 1 ELSE nhs
             /\ phase' = IF r.s = HS /\ phase = "m110a" THEN "m110b0" ELSE phase
             /\ stale' = (stale \/ (r.s = HS /\ k >= 1))
  /\ UNCHANGED <<cpc, k, priq, wire, rets, got, listening>>

\* the connection drops: what is on its way is gone, the reader thread ends on the read error and reports it through
\* errorcb (_on_printrun_error: the error is stored and the event is set)
Lose ==
  /\ LossAllowed /\ listening /\ phase = "ready"
  /\ listening' = FALSE /\ replies' = <<>> /\ wire' = <<>>
  /\ deverr' = TRUE /\ ack' = TRUE
  /\ UNCHANGED <<phase, cpc, k, priq, nhs, acked, rets, got, stale>>

\* write() returns once the event is set -- or, after fix F20, once nobody listens any more; a stored device error is raised
WriteReturn ==
  /\ cpc = "wait" /\ (ack \/ (~WaitWithoutListener /\ ~listening))
  /\ rets' = Append(rets, [s |-> k, res |-> IF deverr \/ ~ack THEN "DeviceError" ELSE "ok", lost |-> ~listening])
  /\ deverr' = FALSE
  /\ cpc' = "idle"
  /\ UNCHANGED <<phase, k, ack, priq, wire, replies, nhs, acked, got, stale, listening>>

Next == StartupEnds \/ WriteCall \/ SenderSends \/ Device \/ Reader \/ WriteReturn \/ Lose
\* the drop itself is not forced to happen
Spec == Init /\ [][Next]_vars /\ WF_vars(StartupEnds \/ WriteCall \/ SenderSends \/ Device \/ Reader \/ WriteReturn)

-----------------------------------------------------------------------------
Front(s) == SubSeq(s, 1, Len(s) - 1)
\* C16: statements reach the device in call order, exactly once
Order == \A i \in DOMAIN got : got[i] = i
\* C16: write(s) does not return before the device acknowledged that very statement ...
SyncStrict == \A i \in DOMAIN rets : (rets[i].res = "ok" => rets[i].s \in acked)   \* expected to FAIL (F12)
\* ... which holds in every behaviour in which no handshake ok arrives after the first write() began
SyncModuloF12 == stale \/ \A i \in DOMAIN rets : (rets[i].res = "ok" => rets[i].s \in acked)
\* C16: an error reply is raised to the caller of the statement it answers
ErrorsSurface == stale \/ \A i \in DOMAIN rets : ~rets[i].lost => ((rets[i].res = "DeviceError") <=> (rets[i].s \in ErrAt))
\* C16, connection loss at any position: a write() that returns after the drop raises
LossSurfaces == \A i \in DOMAIN rets : rets[i].lost => rets[i].res = "DeviceError"
\* every write() eventually returns
AllReturn == <>(Len(rets) = NStmt)
=============================================================================
