------------------------ MODULE DirectWriteImplTrace ------------------------
(***************************************************************************)
(* Implementation-level trace validation for direct writing: is a recorded *)
(* execution of the real SerialWriter / PrintrunWriter / printcore threads *)
(* a behaviour of DirectWriteImpl?  Logged events are matched to the        *)
(* model's actions (call <-> WriteCall, statement tx <-> SenderSends,       *)
(* second start-up M110 <-> StartupEnds, rel <-> Reader, ret <->            *)
(* WriteReturn); the device's steps are not logged and are inferred by TLC. *)
(* A trace that cannot be matched is drift (a NOTE), never an alarm.        *)
(* One TLC run per device script (ErrAt, StatusAt).                          *)
(***************************************************************************)
EXTENDS DirectWriteImpl, Json, IOUtils

Traces == JsonDeserialize(IOEnv.TRACE_FILE)
VARIABLES tid, l
tvars == <<phase, cpc, k, ack, deverr, priq, wire, replies, nhs, acked, rets, got, stale, listening, tid, l>>
Ev == Traces[tid].ev[l]
More == l <= Len(Traces[tid].ev)
Adv == l' = l + 1 /\ UNCHANGED tid

TInit == Init /\ tid \in 1..Len(Traces) /\ l = 1
TStartup == More /\ Ev.k = "tx_hs2" /\ StartupEnds /\ Adv
TCall    == More /\ Ev.k = "call" /\ WriteCall /\ k' = Ev.s /\ Adv
TTx      == More /\ Ev.k = "tx" /\ priq # <<>> /\ Head(priq) = Ev.s /\ SenderSends /\ Adv
TRel     == More /\ Ev.k = "rel" /\ replies # <<>> /\ Head(replies).t = Ev.t
            /\ (Ev.t = "status" \/ (Head(replies).s = HS) = Ev.hs) /\ Reader /\ Adv
TRet     == More /\ Ev.k = "ret" /\ WriteReturn /\ rets'[Len(rets')].s = Ev.s /\ rets'[Len(rets')].res = Ev.res /\ Adv
TDevice  == Device /\ UNCHANGED <<tid, l>>
TEnd     == ~More /\ l = Len(Traces[tid].ev) + 1 /\ PrintT(<<"A", tid>>) /\ l' = l + 1
            /\ UNCHANGED <<phase, cpc, k, ack, deverr, priq, wire, replies, nhs, acked, rets, got, stale, listening, tid>>
TNext == TStartup \/ TCall \/ TTx \/ TRel \/ TRet \/ TDevice \/ TEnd
TSpec == TInit /\ [][TNext]_tvars
=============================================================================
