-------------------------- MODULE DirectWriteTrace --------------------------
(***************************************************************************)
(* C16 on recorded executions of the real SerialWriter / PrintrunWriter /  *)
(* printcore threads on a scripted serial port.  Events in the order of    *)
(* one lock at the OS boundary:                                             *)
(*   call(s, text)  the caller hands statement s to write(); text = the     *)
(*                  bytes the device must receive (statement stripped+LF)   *)
(*   tx(text)       bytes the host wrote to the port                         *)
(*   rel(text, hs)  a reply line handed to the host (hs: it answers a        *)
(*                  start-up line, not a statement)                          *)
(*   ret(s, res)    write(s) returned / raised                               *)
(*   stuck(s)       write(s) had not returned when the deadline expired      *)
(*   disc_call / disc_ret                                                    *)
(* The device answers lines in order, one acknowledgement per line; the      *)
(* specification re-derives which acknowledgement belongs to which line.     *)
(***************************************************************************)
EXTENDS Integers, Sequences, FiniteSets, SequencesExt, Json, IOUtils, TLC

Traces == JsonDeserialize(IOEnv.TRACE_FILE)
VARIABLES tid, l, st, cnt
vars == <<tid, l, st, cnt>>
Clauses == {"C16_Order", "C16_Sync", "C16_Error", "C16_Alarm", "C16_Returns", "C16_Disconnect", "C16_Loss", "H_Device"}

Lower(b) == IF b >= 65 /\ b <= 90 THEN b + 32 ELSE b
StartsWith(t, p) == Len(t) >= Len(p) /\ \A i \in DOMAIN p : Lower(t[i]) = p[i]
IsOk(t)    == StartsWith(t, <<111, 107>>)
IsError(t) == StartsWith(t, <<101, 114, 114, 111, 114>>) \/ StartsWith(t, <<97, 108, 97, 114, 109>>) \/ StartsWith(t, <<33, 33>>)
IsAck(t)   == IsOk(t) \/ IsError(t)
HasSub(t, p) == \E i \in 1..(Len(t) - Len(p) + 1) : SubSeq(t, i, i + Len(p) - 1) = p
IsReset(t) == HasSub(t, <<77, 49, 49, 48>>)                                                 \* "M110"
IsStartup(t) == HasSub(t, <<77, 49, 49, 48>>) \/ StartsWith(t, <<103, 52, 32, 112, 48>>)   \* "M110" / "G4 P0"

\* st: calls (seq of texts), ntx (statement transmissions), acks (seq of ack lines released for statements),
\*     lines (startup+statement transmissions awaiting an ack), nret, lateHs, disc
Holds(c, e) ==
  CASE c = "C16_Order" ->
         (e.k = "tx" /\ ~IsStartup(e.text)) =>
            (st.ntx < Len(st.calls) /\ e.text = st.calls[st.ntx + 1])            \* next statement, unmodified, not before its call
    [] c = "C16_Sync" ->
         (e.k = "ret" /\ e.res = "ok" /\ ~st.lost) => Len(st.acks) >= e.s                     \* its own acknowledgement was handed over before
    [] c = "C16_Error" ->
         (e.k = "ret" /\ Len(st.acks) >= e.s) => ((e.res = "DeviceError") <=> (IsError(st.acks[e.s]) \/ st.alarm))
    \* an error / alarm line the device says while NO statement is outstanding is raised by the next write()
    [] c = "C16_Alarm" -> (e.k = "ret" /\ st.alarm /\ ~st.lost) => e.res # "ok"
    [] c = "C16_Returns" -> e.k # "stuck"
    [] c = "C16_Disconnect" ->
         e.k = "disc_ret" => (~e.alive /\ st.ntx = Len(st.calls) /\ Len(st.acks) = Len(st.calls))
    \* connection loss: the write() in flight when the link drops does not return normally (it raises), and it does return
    [] c = "C16_Loss" -> (e.k = "ret" /\ (st.lost \/ st.wfail)) => e.res # "ok"
    [] c = "H_Device" -> (e.k = "rel" /\ IsAck(e.text) /\ ~(IsError(e.text) /\ st.q = <<>>)) => st.owed > 0
Ante(c, e) ==
  CASE c = "C16_Order" -> e.k = "tx" /\ ~IsStartup(e.text)
    [] c = "C16_Sync" -> e.k = "ret" /\ e.res = "ok"
    [] c = "C16_Error" -> e.k = "ret" /\ Len(st.acks) >= e.s /\ IsError(st.acks[e.s])
    [] c = "C16_Disconnect" -> e.k = "disc_ret"
    [] c = "H_Device" -> e.k = "rel"
    [] c = "C16_Loss" -> e.k = "ret" /\ (st.lost \/ st.wfail)
    [] c = "C16_Alarm" -> e.k = "ret" /\ st.alarm /\ ~st.lost
    [] OTHER -> TRUE

SigOf(c, e) ==
  \* under F12 the host is one acknowledgement behind for the rest of the connection: that also lets disconnect(wait=True)
  \* return while the device's last acknowledgement is still on its way
  IF c \in {"C16_Sync", "C16_Error", "C16_Disconnect"} /\ st.lateHs THEN "HandshakeOkAfterFirstWrite" ELSE ""

NextSt(e) ==
  CASE e.k = "call" -> [st EXCEPT !.calls = Append(st.calls, e.text)]
    [] e.k = "lost" -> [st EXCEPT !.lost = TRUE]
    [] e.k = "wfail" -> [st EXCEPT !.wfail = TRUE]         \* the port refused a write: the write() in progress must raise
    \* the start-up job of a connection transmits the line-number reset twice (opening and closing); finding F12 is about THOSE
    \* two acknowledgements -- a reset transmitted later (e.g. by a connect() on a connected writer, seed C16h) is not part of it
    [] e.k = "tx" -> IF IsStartup(e.text)
                       THEN [st EXCEPT !.owed = st.owed + 1, !.nm = st.nm + (IF IsReset(e.text) THEN 1 ELSE 0),
                                       !.q = Append(st.q, IF IsReset(e.text) /\ st.nm >= 2 THEN "hs2" ELSE "hs")]
                     ELSE [st EXCEPT !.ntx = st.ntx + 1, !.owed = st.owed + 1, !.q = Append(st.q, "stmt")]
    [] e.k = "rel" ->
         IF IsAck(e.text) /\ st.q # <<>>
           THEN IF Head(st.q) = "stmt"
                  THEN [st EXCEPT !.acks = Append(st.acks, e.text), !.owed = st.owed - 1, !.q = Tail(st.q)]
                  ELSE [st EXCEPT !.owed = st.owed - 1, !.q = Tail(st.q), !.lateHs = st.lateHs \/ (Head(st.q) = "hs" /\ Len(st.calls) >= 1)]
           ELSE IF IsError(e.text) /\ st.q = <<>> THEN [st EXCEPT !.alarm = TRUE]       \* unsolicited: nothing is outstanding
           ELSE st
    [] e.k = "ret" -> [st EXCEPT !.alarm = FALSE]
    [] OTHER -> st

Init ==
  /\ tid \in 1..Len(Traces) /\ l = 1
  /\ st = [calls |-> <<>>, ntx |-> 0, acks |-> <<>>, owed |-> 0, q |-> <<>>, lateHs |-> FALSE, lost |-> FALSE, alarm |-> FALSE, wfail |-> FALSE, nm |-> 0]
  /\ cnt = [c \in Clauses |-> 0]
Step ==
  /\ l <= Len(Traces[tid].ev)
  /\ LET e == Traces[tid].ev[l]
         bad == {c \in Clauses : ~Holds(c, e)}
     IN /\ \A c \in bad : PrintT(<<"F", tid, l, c, SigOf(c, e)>>)
        /\ st' = NextSt(e)
        /\ cnt' = [c \in Clauses |-> cnt[c] + IF Ante(c, e) THEN 1 ELSE 0]
  /\ l' = l + 1 /\ UNCHANGED tid
Done == /\ l = Len(Traces[tid].ev) + 1 /\ PrintT(<<"D", tid, l - 1, cnt>>) /\ l' = l + 1
        /\ UNCHANGED <<tid, st, cnt>>
Next == Step \/ Done
Spec == Init /\ [][Next]_vars
=============================================================================
