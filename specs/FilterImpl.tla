----------------------------- MODULE FilterImpl -----------------------------
(***************************************************************************)
(* Implementation-shaped model of PathTracer._filter_segments              *)
(* (geometry/tracer.py) over sample spacings, in hundredths of the         *)
(* resolution.  parametric() oversamples ten times, so along a path at     *)
(* least one resolution long the spacing of consecutive samples lies in    *)
(* 9..10 hundredths... here Spacings = 9..10 (length >= resolution gives   *)
(* num_segments = int(10 L / res) >= 10, spacing = L/num in (res/11,res/10])*)
(*    remaining = resolution; tolerance = resolution / 10                   *)
(*    for each distance but the last: remaining -= d;                       *)
(*        if remaining < tolerance: keep, remaining = resolution            *)
(*    the last sample is always kept.                                       *)
(* The sample history is irrelevant (VIEW): the automaton has finitely many *)
(* states, so TLC covers spacing sequences of every length up to MaxLen.    *)
(***************************************************************************)
EXTENDS Integers, TLC

CONSTANTS MaxLen
VARIABLES rem, since, n, seg, kept
vars == <<rem, since, n, seg, kept>>
view == <<rem, since, seg, kept>>
Spacings == 9..10
Res == 100
Tol == 10

Init == rem = Res /\ since = 0 /\ n = 0 /\ seg = 0 /\ kept = 0
Sample ==
  /\ n < MaxLen
  /\ \E d \in Spacings :
       LET r2 == rem - d  len == since + d IN
       IF r2 < Tol THEN rem' = Res /\ since' = 0 /\ seg' = len /\ kept' = (IF kept < 2 THEN kept + 1 ELSE 2)
       ELSE rem' = r2 /\ since' = len /\ seg' = 0 /\ UNCHANGED kept
  /\ n' = n + 1
Spec == Init /\ [][Sample]_vars
\* every completed segment is at most about one resolution long and (all but the first) at least 0.9 resolutions
KeptOK == seg # 0 => (seg <= 101 /\ seg >= 90)
\* the pending rest (which the always-kept last sample closes) never exceeds one resolution
LastKept == since <= 100
=============================================================================
