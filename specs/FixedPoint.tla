----------------------------- MODULE FixedPoint -----------------------------
(***************************************************************************)
(* Integer geometry for the tracer contracts (C10, C11, C12):              *)
(* square roots (Newton), a 16-step CORDIC arctangent in units of 10^-5    *)
(* radians, squared distances and cross products.  All arguments are in    *)
(* trace units and small enough (|coordinate| <= 30000) for 32-bit TLC     *)
(* integers; an overflow is a TLC error, never a wrong verdict.             *)
(***************************************************************************)
EXTENDS Integers, Sequences, SequencesExt

AbsI(x) == IF x < 0 THEN -x ELSE x
RECURSIVE Newton(_, _, _)
Newton(n, x, k) == IF k = 0 THEN x ELSE LET y == (x + n \div x) \div 2 IN IF y >= x THEN x ELSE Newton(n, y, k - 1)
\* floor(sqrt(n))
ISqrt(n) == IF n <= 0 THEN 0 ELSE IF n < 4 THEN 1 ELSE Newton(n, n \div 2, 40)

Dist2(p, q)   == (p[1] - q[1]) * (p[1] - q[1]) + (p[2] - q[2]) * (p[2] - q[2])
Dist3sq(p, q) == Dist2(p, q) + (p[3] - q[3]) * (p[3] - q[3])
\* z component of (a - c) x (b - c): positive for a counter-clockwise step
Cross(c, a, b) == (a[1] - c[1]) * (b[2] - c[2]) - (a[2] - c[2]) * (b[1] - c[1])
Dot(c, a, b)   == (a[1] - c[1]) * (b[1] - c[1]) + (a[2] - c[2]) * (b[2] - c[2])

PI5    == 314159          \* pi in 10^-5 rad
TWOPI5 == 628319
AtanTab == <<78540, 46365, 24498, 12435, 6242, 3124, 1562, 781, 391, 195, 98, 49, 24, 12, 6, 3>>
Pow2 == <<1, 2, 4, 8, 16, 32, 64, 128, 256, 512, 1024, 2048, 4096, 8192, 16384, 32768>>
\* arithmetic shift that rounds towards zero (TLA+ \div floors)
Shr(v, i) == IF v >= 0 THEN v \div Pow2[i] ELSE -((-v) \div Pow2[i])
\* vectoring CORDIC for x > 0: returns atan2(y, x) in 10^-5 rad
CordicPos(x0, y0) ==
  LET step(acc, i) ==
        IF acc.y > 0 THEN [x |-> acc.x + Shr(acc.y, i), y |-> acc.y - Shr(acc.x, i), z |-> acc.z + AtanTab[i]]
        ELSE IF acc.y < 0 THEN [x |-> acc.x - Shr(acc.y, i), y |-> acc.y + Shr(acc.x, i), z |-> acc.z - AtanTab[i]]
        ELSE acc
  IN FoldLeft(step, [x |-> x0, y |-> y0, z |-> 0], <<1, 2, 3, 4, 5, 6, 7, 8, 9, 10, 11, 12, 13, 14, 15, 16>>).z
\* atan2(y, x) in (-pi, pi], inputs scaled up for precision (|x|,|y| <= 30000)
Atan2(y, x) ==
  LET s == IF AbsI(x) < 2000 /\ AbsI(y) < 2000 THEN 1024 ELSE 64
      X == x * s  Y == y * s IN
  IF x = 0 /\ y = 0 THEN 0
  ELSE IF X > 0 THEN CordicPos(X, Y)
  ELSE IF X < 0 THEN (IF Y >= 0 THEN PI5 - CordicPos(-X, Y) ELSE -PI5 - CordicPos(-X, Y))
  ELSE (IF Y > 0 THEN PI5 \div 2 ELSE -(PI5 \div 2))
\* the angle from a to b about c, small steps: asin(cross / (|a-c| |b-c|)) ~ cross / (|a-c||b-c|), in 10^-5 rad
\* (used only for steps well below a radian; the error is cubic in the step)
StepAngle(c, a, b) ==
  LET ra == ISqrt(Dist2(a, c))  rb == ISqrt(Dist2(b, c))
      den == (ra * rb) \div 1000 IN
  IF den = 0 THEN 0 ELSE (Cross(c, a, b) * 100) \div den
=============================================================================
