------------------------------- MODULE Format -------------------------------
(***************************************************************************)
(* Contract for C08: every emitted line is one well-formed block and every *)
(* numeric word is within half a unit of the last configured decimal place *)
(* of the value requested.                                                  *)
(*                                                                          *)
(* Lines are byte sequences.  Numbers are compared EXACTLY, as decimal      *)
(* digit sequences of any length (TLC's integers are 32-bit):               *)
(*   a decimal is [neg, ip, fp]: sign, integer digits, fraction digits      *)
(*   (digits 0..9, most significant first).                                  *)
(* The requested value arrives as the exact decimal expansion of the double  *)
(* the caller passed, together with the exact expansion of its ulp: "the    *)
(* value requested" is only defined up to the double that represents it, so *)
(* the tolerance is  1/2 * 10^-dp + ulp(x).                                  *)
(***************************************************************************)
EXTENDS Integers, Sequences, FiniteSets, SequencesExt

Digit(b)  == b >= 48 /\ b <= 57
Letter(b) == (b >= 65 /\ b <= 90) \/ (b >= 97 /\ b <= 122)
Blank(b)  == b = 32

\* ------------------------------------------------------------------ big naturals (digit sequences)
Strip0(d) == LET nz == {i \in DOMAIN d : d[i] # 0} IN
             IF nz = {} THEN <<>> ELSE SubSeq(d, CHOOSE i \in nz : \A j \in nz : i <= j, Len(d))
PadL(d, n) == [i \in 1..n |-> IF i <= n - Len(d) THEN 0 ELSE d[i - (n - Len(d))]]
PadR(d, n) == [i \in 1..n |-> IF i <= Len(d) THEN d[i] ELSE 0]
\* a <= b for equal-length digit sequences
LeqEq(a, b) == LET diff == {i \in DOMAIN a : a[i] # b[i]} IN
               diff = {} \/ LET k == CHOOSE i \in diff : \A j \in diff : i <= j IN a[k] < b[k]
BigLeq(a, b) == LET n == IF Len(a) > Len(b) THEN Len(a) ELSE Len(b) IN LeqEq(PadL(a, n), PadL(b, n))
BigAdd(a, b) ==
  LET n == (IF Len(a) > Len(b) THEN Len(a) ELSE Len(b)) + 1
      x == PadL(a, n)  y == PadL(b, n)
      r == FoldRight(LAMBDA i, acc : LET s == x[i] + y[i] + acc.c IN [d |-> <<s % 10>> \o acc.d, c |-> s \div 10],
                     [i \in 1..n |-> i], [d |-> <<>>, c |-> 0])
  IN r.d

\* fixed point at F fraction digits: a decimal becomes one big natural
Fix(x, F) == x.ip \o PadR(x.fp, F)
IsZero(x) == Strip0(x.ip \o x.fp) = <<>>
\* |w - x| <= t   (w, x signed decimals, t a non-negative decimal)
Close(w, x, t) ==
  LET F == IF Len(w.fp) >= Len(x.fp) /\ Len(w.fp) >= Len(t.fp) THEN Len(w.fp)
           ELSE IF Len(x.fp) >= Len(t.fp) THEN Len(x.fp) ELSE Len(t.fp)
      W == Fix(w, F)  X == Fix(x, F)  T == Fix(t, F)
  IN IF w.neg = x.neg THEN BigLeq(W, BigAdd(X, T)) /\ BigLeq(X, BigAdd(W, T))
     ELSE BigLeq(BigAdd(W, X), T)            \* opposite signs: |w - x| = |w| + |x|
\* half a unit of the dp-th decimal place: 0.0...05
HalfUnit(dp) == [neg |-> FALSE, ip |-> <<0>>, fp |-> [i \in 1..(dp + 1) |-> IF i = dp + 1 THEN 5 ELSE 0]]
DecAdd(a, b) ==   \* both non-negative
  LET F == IF Len(a.fp) > Len(b.fp) THEN Len(a.fp) ELSE Len(b.fp)
      s == BigAdd(Fix(a, F), Fix(b, F)) IN
  [neg |-> FALSE, ip |-> SubSeq(s, 1, Len(s) - F), fp |-> SubSeq(s, Len(s) - F + 1, Len(s))]
Faithful(w, x, ulp, dp) == Close(w, x, DecAdd(HalfUnit(dp), ulp))

\* ------------------------------------------------------------------ lexing
\* "[-]DIGITS[.DIGITS]" as a decimal; ok = FALSE for anything else (exponents, nan, inf, '+', bare '.')
ParseDec(s) ==
  LET neg == s # <<>> /\ s[1] = 45
      u == IF neg THEN Tail(s) ELSE s
      dots == {i \in DOMAIN u : u[i] = 46}
      dot == IF dots = {} THEN 0 ELSE CHOOSE i \in dots : TRUE
      ipb == IF dot = 0 THEN u ELSE SubSeq(u, 1, dot - 1)
      fpb == IF dot = 0 THEN <<>> ELSE SubSeq(u, dot + 1, Len(u))
      ok == /\ Cardinality(dots) <= 1 /\ ipb # <<>> /\ (dot = 0 \/ fpb # <<>>)
            /\ (\A i1 \in DOMAIN ipb : Digit(ipb[i1])) /\ (\A i2 \in DOMAIN fpb : Digit(fpb[i2]))
  IN [ok |-> ok, neg |-> neg, ip |-> IF ok THEN [i \in DOMAIN ipb |-> ipb[i] - 48] ELSE <<>>,
      fp |-> IF ok THEN [i \in DOMAIN fpb |-> fpb[i] - 48] ELSE <<>>]

\* split a code part at blanks
Words(code) ==
  LET r == FoldLeft(LAMBDA acc, b : IF Blank(b) THEN (IF acc.cur = <<>> THEN acc ELSE [ws |-> Append(acc.ws, acc.cur), cur |-> <<>>])
                                    ELSE [acc EXCEPT !.cur = Append(acc.cur, b)],
                    [ws |-> <<>>, cur |-> <<>>], code) IN
  IF r.cur = <<>> THEN r.ws ELSE Append(r.ws, r.cur)
\* an address word: LETTERS then a plain decimal
WordSplit(w) == LET k == Cardinality({i \in DOMAIN w : \A j \in 1..i : Letter(w[j])}) IN
                [letters |-> SubSeq(w, 1, k), num |-> SubSeq(w, k + 1, Len(w))]
WordOK(w) == LET p == WordSplit(w) IN p.letters # <<>> /\ ParseDec(p.num).ok

FindSub(s, p, from) ==
  LET hits == {i \in from..(Len(s) - Len(p) + 1) : SubSeq(s, i, i + Len(p) - 1) = p} IN
  IF p = <<>> \/ hits = {} THEN 0 ELSE CHOOSE i \in hits : \A j \in hits : i <= j
EndsWith(s, p) == Len(s) >= Len(p) /\ SubSeq(s, Len(s) - Len(p) + 1, Len(s)) = p

\* one emitted line: words, at most one comment in the configured style, the line ending exactly once
LineOK(line, eol, style) ==
  /\ EndsWith(line, eol)
  /\ LET body == SubSeq(line, 1, Len(line) - Len(eol))
         i == FindSub(body, style.open, 1)
         code == IF i = 0 THEN body ELSE SubSeq(body, 1, i - 1)
         cmt == IF i = 0 THEN <<>> ELSE SubSeq(body, i, Len(body)) IN
     /\ body # <<>>                                                     \* terminated once: no empty line
     /\ \A k \in DOMAIN body : body[k] # 10 /\ body[k] # 13              \* no other line break
     /\ \A k \in DOMAIN Words(code) : WordOK(Words(code)[k])
     /\ (i # 0 /\ style.close # <<>>) =>
           (EndsWith(cmt, style.close) /\ FindSub(cmt, style.close, Len(style.open) + 1) = Len(cmt) - Len(style.close) + 1)
\* the decimal carried by the first word with the given letters (after relabelling)
ValueOf(line, eol, style, letters) ==
  LET body == SubSeq(line, 1, Len(line) - Len(eol))
      i == FindSub(body, style.open, 1)
      ws == Words(IF i = 0 THEN body ELSE SubSeq(body, 1, i - 1))
      hits == {k \in DOMAIN ws : WordSplit(ws[k]).letters = letters} IN
  IF hits = {} THEN [ok |-> FALSE, neg |-> FALSE, ip |-> <<>>, fp |-> <<>>]
  ELSE ParseDec(WordSplit(ws[CHOOSE k \in hits : \A j \in hits : k <= j]).num)
=============================================================================
