----------------------------- MODULE FormatImpl -----------------------------
(***************************************************************************)
(* Implementation-shaped model of DefaultFormatter.number                  *)
(* (formatters/default_formatter.py -> numpy.format_float_positional with  *)
(* precision = decimal_places, unique, fractional, trim '-'):               *)
(* round-to-nearest (ties to even) decimal rendering of a short decimal     *)
(* m * 10^e with trailing zeros and a trailing point removed, "0" for zero. *)
(* TLC enumerates mantissas x exponents x decimal places x sign and checks  *)
(* the C08 clauses on the model's own output; every case is also replayed   *)
(* through the real formatter and judged the same way (never by string      *)
(* equality with the model).                                                 *)
(***************************************************************************)
EXTENDS Format, TLC

CONSTANTS Ms, Exps, DPs      \* mantissas (naturals < 1000), exponents -6..0, decimal places 0..6

VARIABLES neg, m, e, dp
vars == <<neg, m, e, dp>>

RECURSIVE Pow10(_)
Pow10(k) == IF k = 0 THEN 1 ELSE 10 * Pow10(k - 1)
RECURSIVE Digits(_)
Digits(n) == IF n < 10 THEN <<n>> ELSE Append(Digits(n \div 10), n % 10)

N      == m * Pow10(6 + e)                 \* the value in units of 10^-6
Unit   == Pow10(6 - dp)
Q      == N \div Unit
R      == N % Unit
Rnd    == IF 2 * R > Unit \/ (2 * R = Unit /\ Q % 2 = 1) THEN Q + 1 ELSE Q
\* digits of the rounded value with dp decimals, trailing zeros / point trimmed
IntPart  == Digits(Rnd \div Pow10(dp))
FracAll  == PadL(Digits(Rnd % Pow10(dp)), dp)
FracTrim == LET nz == {i \in DOMAIN FracAll : FracAll[i] # 0} IN
            IF nz = {} THEN <<>> ELSE SubSeq(FracAll, 1, CHOOSE i \in nz : \A j \in nz : j <= i)
Text == IF N = 0 THEN <<48>>
        ELSE (IF neg THEN <<45>> ELSE <<>>) \o [i \in DOMAIN IntPart |-> IntPart[i] + 48]
             \o (IF FracTrim = <<>> THEN <<>> ELSE <<46>> \o [i \in DOMAIN FracTrim |-> FracTrim[i] + 48])

Exact == [neg |-> neg /\ N # 0, ip |-> Digits(N \div 1000000), fp |-> PadL(Digits(N % 1000000), 6)]
Zero  == [neg |-> FALSE, ip |-> <<0>>, fp |-> <<>>]

Init == neg \in BOOLEAN /\ m \in Ms /\ e \in Exps /\ dp \in DPs
Spec == Init /\ [][FALSE]_vars

WellFormed    == WordOK(<<88>> \o Text)
FaithfulValue == ParseDec(Text).ok /\ Faithful(ParseDec(Text), Exact, Zero, dp)
=============================================================================
