----------------------------- MODULE FormatTrace -----------------------------
(***************************************************************************)
(* C08 on recorded executions: each event is one builder call with one     *)
(* numeric argument under test.  `out` are all bytes the call emitted;     *)
(* x / ulp are the exact decimal expansions of the double handed to the    *)
(* call and of its unit in the last place; `letters` is the address the    *)
(* value must appear under (after axis relabelling).                        *)
(***************************************************************************)
EXTENDS Format, Json, IOUtils, TLC

Traces == JsonDeserialize(IOEnv.TRACE_FILE)
VARIABLES tid, l, cnt
vars == <<tid, l, cnt>>
Clauses == {"C08_Lines", "C08_Value", "C08_NonFinite"}

\* cut after each occurrence of the line ending; a rest without ending is kept (and then fails LineOK)
RECURSIVE CutLines(_, _)
CutLines(out, eol) ==
  IF out = <<>> THEN <<>>
  ELSE LET i == FindSub(out, eol, 1) IN
       IF i = 0 THEN <<out>>
       ELSE <<SubSeq(out, 1, i + Len(eol) - 1)>> \o CutLines(SubSeq(out, i + Len(eol), Len(out)), eol)

Holds(c, T, e) ==
  LET ls == CutLines(e.out, T.meta.eol) IN
  CASE c = "C08_Lines" -> e.res = "ok" => (ls # <<>> /\ \A i \in DOMAIN ls : LineOK(ls[i], T.meta.eol, T.meta.style))
    [] c = "C08_Value" ->
         (e.res = "ok" /\ ~e.nonfinite) =>
            \E i \in DOMAIN ls :
               LET w == ValueOf(ls[i], T.meta.eol, T.meta.style, e.letters) IN
               w.ok /\ Faithful(w, e.x, e.ulp, e.dp)     \* the precision configured when the call was made
    [] c = "C08_NonFinite" -> e.nonfinite => (e.res = "ValueError" /\ e.out = <<>>)
Ante(c, T, e) ==
  CASE c = "C08_NonFinite" -> e.nonfinite
    [] OTHER -> e.res = "ok" /\ ~e.nonfinite

Init == tid \in 1..Len(Traces) /\ l = 1 /\ cnt = [c \in Clauses |-> 0]
Step ==
  /\ l <= Len(Traces[tid].ev)
  /\ LET T == Traces[tid]  e == T.ev[l]
         bad == {c \in Clauses : ~Holds(c, T, e)}
     IN /\ \A c \in bad : PrintT(<<"F", tid, l, c, "">>)
        /\ cnt' = [c \in Clauses |-> cnt[c] + IF Ante(c, T, e) THEN 1 ELSE 0]
  /\ l' = l + 1 /\ UNCHANGED tid
Done == /\ l = Len(Traces[tid].ev) + 1 /\ PrintT(<<"D", tid, l - 1, cnt>>) /\ l' = l + 1 /\ UNCHANGED <<tid, cnt>>
Next == Step \/ Done
Spec == Init /\ [][Next]_vars
=============================================================================
