----------------------------- MODULE GcoderImpl -----------------------------
(***************************************************************************)
(* Beyond the listed properties: the position tracking of the bundled      *)
(* analyser printrun/gcoder.py (GCode._preprocess), as the code does it.    *)
(* printcore feeds every transmitted line to it and pause() takes the       *)
(* position to come back to from it (abs_x, abs_y, abs_z, abs_e,            *)
(* current_f, relative, relative_e), so the analyser is a second            *)
(* implementation of "what a machine executing this program does" --        *)
(* Machine.tla is the reference it is compared with (GcoderTrace.tla).      *)
(*                                                                          *)
(* A line is the word sequence of Machine.tla.  The analyser's "command"    *)
(* is the FIRST word of the line (after a line number), whatever its        *)
(* letter: "S1000 M03" is the command S1000 and changes nothing.            *)
(* Coordinates are kept in tenths of a trace unit so that the inch factor   *)
(* 25.4 stays an integer (254).                                             *)
(*                                                                          *)
(* Deviations from the reference semantics, named:                          *)
(*   HomeZeroIsHomeAll   G28 with axis words that are all zero is taken as  *)
(*                       "home all" (`not any([x, y, z])` is true for 0.0)  *)
(*   G9xSetsEMode        G90 / G91 also switch the extruder between         *)
(*                       absolute and relative (Marlin), M82 / M83 override *)
(*   HomeIsOrigin        after G28 the axis is at 0 (no unknown positions)  *)
(*   ProbeStaysPut       G38.x does not move the tracked position           *)
(***************************************************************************)
EXTENDS Machine

GInit == [cur  |-> [a \in AxisSet |-> 0],     \* position counted from the machine origin
          off  |-> [a \in AxisSet |-> 0],     \* G92 offsets
          rel  |-> FALSE, rele |-> FALSE, imp |-> FALSE,
          e    |-> 0, offe |-> 0,             \* extruder position and its G92 offset
          f    |-> 0,                         \* last feed word seen on a move
          tool |-> 0]

GAbs(g, a) == g.cur[a] - g.off[a]             \* what a G90 word must say to stay where we are
GAbsE(g)   == g.e - g.offe

Val10(g, ws, a) == (IF g.imp THEN 254 ELSE 10) * ValW(ws, a)

GStep(g, ws) ==
  IF ws = <<>> THEN g
  ELSE
  LET c == ws[1]                               \* the command word
      isG == c.l = "G"
      move == isG /\ c.v \in {0, 10, 20, 30}
      has(a) == isG /\ HasW(ws, a)             \* parse_coordinates only looks at G lines
      zero(a) == ~has(a) \/ ValW(ws, a) = 0
      homeAll == zero("X") /\ zero("Y") /\ zero("Z")
  IN
  IF move THEN
    [g EXCEPT
       !.cur = [a \in AxisSet |->
                  IF g.rel THEN g.cur[a] + (IF has(a) THEN Val10(g, ws, a) ELSE 0)
                  ELSE IF has(a) THEN Val10(g, ws, a) + g.off[a] ELSE g.cur[a]],
       !.f = IF has("F") THEN Val10(g, ws, "F") ELSE g.f,
       !.e = IF ~has("E") THEN g.e
             ELSE IF g.rele THEN g.e + Val10(g, ws, "E") ELSE Val10(g, ws, "E") + g.offe]
  ELSE IF isG /\ c.v = 200 THEN [g EXCEPT !.imp = TRUE]
  ELSE IF isG /\ c.v = 210 THEN [g EXCEPT !.imp = FALSE]
  ELSE IF isG /\ c.v = 900 THEN [g EXCEPT !.rel = FALSE, !.rele = FALSE]
  ELSE IF isG /\ c.v = 910 THEN [g EXCEPT !.rel = TRUE, !.rele = TRUE]
  ELSE IF c.l = "M" /\ c.v = 820 THEN [g EXCEPT !.rele = FALSE]
  ELSE IF c.l = "M" /\ c.v = 830 THEN [g EXCEPT !.rele = TRUE]
  ELSE IF c.l = "T" THEN [g EXCEPT !.tool = c.v]
  ELSE IF isG /\ c.v = 280 THEN
    [g EXCEPT !.cur = [a \in AxisSet |-> IF homeAll \/ has(a) THEN 0 ELSE g.cur[a]],
              !.off = [a \in AxisSet |-> IF homeAll \/ has(a) THEN 0 ELSE g.off[a]]]
  ELSE IF isG /\ c.v = 920 THEN
    [g EXCEPT !.off = [a \in AxisSet |-> IF has(a) THEN g.cur[a] - Val10(g, ws, a) ELSE g.off[a]],
              !.offe = IF has("E") THEN g.e - Val10(g, ws, "E") ELSE g.offe]
  ELSE g

RECURSIVE GExec(_, _)
GExec(g, lines) == IF lines = <<>> THEN g ELSE GExec(GStep(g, Head(lines).ws), Tail(lines))

-----------------------------------------------------------------------------
(* A small model of its own: the analyser and the reference interpreter run *)
(* over the same program; TLC explores all programs over a small alphabet.  *)
CONSTANTS Vs, MaxLen
VARIABLES g, m, taint, n
gvars == <<g, m, taint, n>>

W(l, v) == [l |-> l, v |-> v]
AxWords == {<<>>} \cup {<<W(a, v)>> : a \in AxisSet, v \in Vs}
               \cup {<<W("X", v), W("Y", w)>> : v \in Vs, w \in Vs}
Programs ==
  {<<W("G", c)>> \o ax : c \in {0, 10, 280, 920}, ax \in AxWords} \cup
  {<<W("G", 900)>>, <<W("G", 910)>>}

\* axes on which the analyser is knowingly elsewhere: "home all" triggered by zeros, until the next absolute word or G92
NextTaint(t, gg, ws) ==
  LET c == ws[1]
      hz == c.l = "G" /\ c.v = 280 /\ (\E a \in AxisSet : HasW(ws, a)) /\ (\A a \in AxisSet : HasW(ws, a) => ValW(ws, a) = 0)
  IN [a \in AxisSet |->
        IF hz /\ ~HasW(ws, a) THEN TRUE
        ELSE IF c.l = "G" /\ HasW(ws, a) /\ (c.v = 920 \/ c.v = 280 \/ (c.v \in {0, 10} /\ ~gg.rel)) THEN FALSE
        ELSE t[a]]

Init == g = GInit /\ m = InitMachine /\ taint = [a \in AxisSet |-> FALSE] /\ n = 0
Next == /\ n < MaxLen
        /\ \E ws \in Programs :
             /\ g' = GStep(g, ws) /\ m' = ExecLine(m, ws) /\ taint' = NextTaint(taint, g, ws)
        /\ n' = n + 1
Spec == Init /\ [][Next]_gvars

\* where the reference knows the position, the analyser agrees -- outside the named deviation
Agrees == \A a \in AxisSet : (m.known[a] /\ ~taint[a]) => GAbs(g, a) = 10 * m.pos[a]
AgreesStrict == \A a \in AxisSet : m.known[a] => GAbs(g, a) = 10 * m.pos[a]        \* expected to FAIL (HomeZeroIsHomeAll)
ModeAgrees == g.rel = m.rel
=============================================================================
