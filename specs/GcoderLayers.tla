---------------------------- MODULE GcoderLayers ----------------------------
(***************************************************************************)
(* Beyond the listed properties: the layer table of the bundled analyser   *)
(* (printrun/gcoder.py, GCode._preprocess with build_layers).  printcore    *)
(* walks a job by queue index and fetches the line to send through          *)
(*     layer, line = mainqueue.idxs(queueindex)                              *)
(*     gline = mainqueue.all_layers[layer][line]                             *)
(* so streaming "every line once, in order" (C15) rests on this table being *)
(* the inverse of cutting the program into layers.                           *)
(*                                                                           *)
(* A line, as the layering sees it:                                          *)
(*   [cmd  |-> the line has a command word,                                  *)
(*    move |-> G0/G1/..., g92 |-> it is a G92,                               *)
(*    hasz |-> it carries a Z word, z |-> its value (integer units),         *)
(*    rel  |-> distance mode in force at the line (moves only),              *)
(*    ext  |-> an extruding move that names X or Y]                          *)
(* The algorithm is gcoder's, statement for statement: the lines since the   *)
(* last cut are appended as a chunk when the height changes after an         *)
(* extrusion; a chunk opens a new layer if it extruded at a height other     *)
(* than the last layer's (or there is no layer yet) and is merged into the   *)
(* last layer otherwise.  Indices are 0-based as in the code.                *)
(***************************************************************************)
EXTENDS Integers, Sequences, FiniteSets, TLC

NoZ == -1000000        \* Python's None for a height

S0 == [layers |-> <<>>, lidx |-> <<>>, pidx |-> <<>>, curz |-> NoZ, prevz |-> NoZ, lastlz |-> NoZ,
       has |-> FALSE, cur |-> <<>>, n |-> 0]

\* append_lines(cur_lines, _): the chunk s.cur goes to a new or to the last layer
AppendChunk(s) ==
  LET fresh == (s.has /\ s.prevz # s.lastlz) \/ s.layers = <<>>
      base  == IF fresh THEN Append(s.layers, <<>>) ELSE s.layers
      id    == Len(base)                       \* 1-based position of the receiving layer
      off   == Len(base[id])                   \* lines it already holds
  IN [s EXCEPT !.layers = [base EXCEPT ![id] = base[id] \o s.cur],
               !.lidx = s.lidx \o [i \in 1..Len(s.cur) |-> id - 1],
               !.pidx = s.pidx \o [i \in 1..Len(s.cur) |-> off + i - 1],
               !.lastlz = IF fresh THEN s.prevz ELSE s.lastlz]

\* one program line
Step(s, ln) ==
  LET id   == s.n + 1
      has1 == IF ln.cmd /\ ln.move THEN s.has \/ ln.ext ELSE s.has
      z1   == IF ln.cmd /\ ln.hasz
                THEN (IF ln.g92 THEN ln.z
                      ELSE IF ln.move THEN (IF ln.rel /\ s.curz # NoZ THEN s.curz + ln.z ELSE ln.z)
                      ELSE s.curz)
                ELSE s.curz
      s1   == [s EXCEPT !.has = has1, !.curz = z1]
      cut  == ln.cmd /\ z1 # s.prevz /\ has1
      s2   == IF cut THEN [AppendChunk(s1) EXCEPT !.cur = <<>>, !.has = FALSE] ELSE s1
  IN [s2 EXCEPT !.cur = Append(s2.cur, id), !.prevz = z1, !.n = id]

\* end of the program: what is left goes out as a last chunk
Final(s) == IF s.cur # <<>> THEN [AppendChunk(s) EXCEPT !.cur = <<>>] ELSE s

RECURSIVE RunFrom(_, _)
RunFrom(s, lines) == IF lines = <<>> THEN s ELSE RunFrom(Step(s, Head(lines)), Tail(lines))
Table(lines) == Final(RunFrom(S0, lines))

---------------------------------------------------------------------------
\* Contract: the table is the inverse of the cut
RECURSIVE Flatten(_)
Flatten(ls) == IF ls = <<>> THEN <<>> ELSE Head(ls) \o Flatten(Tail(ls))

TableOK(layers, lidx, pidx, n) ==
  /\ Len(lidx) = n /\ Len(pidx) = n
  /\ \A i \in 1..n : /\ lidx[i] + 1 \in DOMAIN layers
                     /\ pidx[i] + 1 \in DOMAIN layers[lidx[i] + 1]
                     /\ layers[lidx[i] + 1][pidx[i] + 1] = i            \* queue index i fetches line i
  /\ Flatten(layers) = [i \in 1..n |-> i]                             \* the layers are the program, cut
\* NOT part of the contract (TLC refutes it): a program whose very first line is an extruding move with a Z word gets an
\* empty layer 0 -- the cut happens before anything was collected.  Nothing is ever fetched from it.
NoEmptyLayer(layers) == \A k \in DOMAIN layers : layers[k] # <<>>
\* queue indices walk the layers monotonically
Monotone(lidx) == \A i \in 1..(Len(lidx) - 1) : lidx[i] <= lidx[i + 1]

---------------------------------------------------------------------------
\* Model: every program over a small alphabet, line by line; the contract is evaluated on every prefix
CONSTANTS MaxLines, Zs
VARIABLES s, prog
vars == <<s, prog>>

LineSet ==
  {[cmd |-> FALSE, move |-> FALSE, g92 |-> FALSE, hasz |-> FALSE, z |-> 0, rel |-> FALSE, ext |-> FALSE]}      \* a comment
  \cup {[cmd |-> TRUE, move |-> FALSE, g92 |-> g, hasz |-> hz, z |-> (IF hz THEN z ELSE 0), rel |-> FALSE, ext |-> FALSE]
          : g \in BOOLEAN, hz \in BOOLEAN, z \in Zs}                                                              \* M-codes, G92
  \cup {[cmd |-> TRUE, move |-> TRUE, g92 |-> FALSE, hasz |-> hz, z |-> (IF hz THEN z ELSE 0), rel |-> r, ext |-> e]
          : hz \in BOOLEAN, z \in Zs, r \in BOOLEAN, e \in BOOLEAN}                                               \* moves

Init == s = S0 /\ prog = <<>>
Next == /\ Len(prog) < MaxLines
        /\ \E ln \in LineSet : s' = Step(s, ln) /\ prog' = Append(prog, ln)
Spec == Init /\ [][Next]_vars

Inv_Table    == LET f == Final(s) IN TableOK(f.layers, f.lidx, f.pidx, s.n)
Inv_Monotone == Monotone(Final(s).lidx)
Inv_NoEmptyLayer == NoEmptyLayer(Final(s).layers)          \* expected to be violated (see above)
\* the incremental run and the batch definition agree (sanity of the specification itself)
Inv_Batch    == Final(s) = Table(prog)
=============================================================================
