------------------------- MODULE GcoderLayersTrace -------------------------
(***************************************************************************)
(* The layer table of the REAL analyser (gcoder.GCode(job), as printcore    *)
(* builds it for every job) on recorded jobs.  A record holds, per program  *)
(* line, the attributes the layering reads off the parsed line (taken from  *)
(* the real Line objects), and the table the real code built: all_layers    *)
(* as lists of line positions, layer_idxs, line_idxs.                       *)
(*   contract   TableOK: queue index i fetches line i, the layers are the   *)
(*              program cut in order                  -> <<"F", tid, clause>> *)
(*   impl       the table is exactly the one GcoderLayers computes           *)
(*                                                     -> <<"X", tid, what>> *)
(* Both are notes (the table is not one of the listed properties; C15 rests *)
(* on it).                                                                  *)
(***************************************************************************)
EXTENDS GcoderLayers, Json, IOUtils

Traces == JsonDeserialize(IOEnv.TRACE_FILE)
VARIABLES tid, done
tvars == <<s, prog, tid, done>>

TInit == s = S0 /\ prog = <<>> /\ tid \in 1..Len(Traces) /\ done = FALSE
TCheck ==
  /\ ~done
  /\ LET T == Traces[tid]
         n == Len(T.lines)
         m == Table(T.lines)
     IN /\ IF ~TableOK(T.layers, T.lidx, T.pidx, n) THEN PrintT(<<"F", tid, "TableOK">>) ELSE TRUE
        /\ IF ~Monotone(T.lidx) THEN PrintT(<<"F", tid, "Monotone">>) ELSE TRUE
        /\ IF m.lidx # T.lidx \/ m.pidx # T.pidx THEN PrintT(<<"X", tid, "idxs">>) ELSE TRUE
        /\ IF m.layers # T.layers THEN PrintT(<<"X", tid, "layers">>) ELSE TRUE
        /\ PrintT(<<"D", tid, n, Len(T.layers)>>)
  /\ done' = TRUE /\ UNCHANGED <<s, prog, tid>>
TSpec == TInit /\ [][TCheck]_tvars
=============================================================================
