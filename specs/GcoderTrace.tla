----------------------------- MODULE GcoderTrace -----------------------------
(***************************************************************************)
(* The bundled analyser (printrun/gcoder.py) following programs emitted by *)
(* the real builder.  Each recorded builder event carries the lines it      *)
(* emitted and the REAL analyser's state after them (`gc`: abs position,    *)
(* relative / relative_e / imperial flags, extruder position, feed).        *)
(*   impl level  the model GcoderImpl, run over the same lines, must be in  *)
(*               exactly that state                          -> <<"X", ..>> *)
(*   contract    where Machine.tla knows the position, the real analyser    *)
(*               agrees with it (outside the named deviations), and the     *)
(*               distance mode is the machine's              -> <<"F", ..>> *)
(* Both are notes, never alarms: the analyser is not one of the listed      *)
(* properties; it is what printcore.pause() / resume() rely on.             *)
(***************************************************************************)
EXTENDS GcoderImpl, Json, IOUtils, TLC

Traces == JsonDeserialize(IOEnv.TRACE_FILE)
VARIABLES tid, l, cnt, inch
tvars == <<g, m, taint, n, tid, l, cnt, inch>>

AxOf == <<"X", "Y", "Z">>
RECURSIVE TaintAll(_, _, _)
TaintAll(t, gg, lines) ==
  IF lines = <<>> THEN t
  ELSE TaintAll(IF Head(lines).ws = <<>> THEN t ELSE NextTaint(t, gg, Head(lines).ws), GStep(gg, Head(lines).ws), Tail(lines))
AnyInch(lines) == \E i \in DOMAIN lines : lines[i].ws # <<>> /\ lines[i].ws[1].l = "G" /\ lines[i].ws[1].v = 200

TInit == /\ g = GInit /\ m = InitMachine /\ taint = [a \in AxisSet |-> FALSE] /\ n = 0
         /\ tid \in 1..Len(Traces) /\ l = 1 /\ cnt = [impl |-> 0, agree |-> 0, tainted |-> 0] /\ inch = FALSE
TStep ==
  /\ l <= Len(Traces[tid].ev)
  /\ LET e == Traces[tid].ev[l]
         g2 == GExec(g, e.lines)
         m2 == Exec(m, e.lines)
         t2 == TaintAll(taint, g, e.lines)
         in2 == inch \/ AnyInch(e.lines)
         usable == e.gc.ok /\ Traces[tid].meta.exact
         implOK == /\ \A i \in 1..3 : e.gc.abs[i] = GAbs(g2, AxOf[i])
                   /\ e.gc.rel = g2.rel /\ e.gc.rele = g2.rele /\ e.gc.imp = g2.imp
                   /\ e.gc.e = GAbsE(g2) /\ e.gc.f = g2.f
         \* the reference keeps program units; the analyser converts inches: compare only before the first G20
         agreeOK == in2 \/ (/\ \A i \in 1..3 : (m2.known[AxOf[i]] /\ ~t2[AxOf[i]]) => e.gc.abs[i] = 10 * m2.pos[AxOf[i]]
                            /\ e.gc.rel = m2.rel)
     IN /\ g' = g2 /\ m' = m2 /\ taint' = t2 /\ inch' = in2
        /\ IF usable /\ ~implOK THEN PrintT(<<"X", tid, l, e.call>>) ELSE TRUE
        /\ IF usable /\ ~agreeOK THEN PrintT(<<"F", tid, l, e.call>>) ELSE TRUE
        /\ cnt' = [impl |-> cnt.impl + (IF usable THEN 1 ELSE 0),
                   agree |-> cnt.agree + (IF usable /\ ~in2 /\ (\E a \in AxisSet : m2.known[a] /\ ~t2[a]) THEN 1 ELSE 0),
                   tainted |-> cnt.tainted + (IF usable /\ (\E a \in AxisSet : m2.known[a] /\ t2[a]) THEN 1 ELSE 0)]
  /\ l' = l + 1 /\ UNCHANGED <<tid, n>>
TDone == /\ l = Len(Traces[tid].ev) + 1 /\ PrintT(<<"D", tid, l - 1, cnt>>) /\ l' = l + 1
         /\ UNCHANGED <<g, m, taint, n, tid, cnt, inch>>
TSpec == TInit /\ [][TStep \/ TDone]_tvars
=============================================================================
