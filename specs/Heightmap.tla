------------------------------ MODULE Heightmap ------------------------------
(***************************************************************************)
(* Contract for C19.  Heights are integers in 10^-3 units, scales in       *)
(* 10^-3, coordinates in map units (pixels / CSV units), sparse sample     *)
(* coordinates in 10^-3 units.                                              *)
(***************************************************************************)
EXTENDS Integers, Sequences, FiniteSets, SequencesExt

AbsH(x) == IF x < 0 THEN -x ELSE x
\* ------------------------------------------------------------------ raster
\* img[row][col] with row = y + 1, col = x + 1 ("x as column and y as row")
InRange(m, x, y) == x >= 0 /\ x < m.w /\ y >= 0 /\ y < m.h
\* |z * max - scale * pixel| <= tol * max   <=>   z = scale * pixel / max  (z, scale in 10^-3)
PixelOK(m, x, y, z) ==
  IF InRange(m, x, y) THEN AbsH(z * m.max - m.scale * m.img[y + 1][x + 1]) <= 2 * m.max
  ELSE z = 0
\* scaled height (times max) of a pixel, for comparisons between pixels
HMax(m, x, y) == m.scale * m.img[y + 1][x + 1]

\* the line (x1,y1)-(x2,y2); a pixel is ON it when it is within half a pixel (ties included)
CrossL(l, x, y) == (l[3] - l[1]) * (y - l[2]) - (l[4] - l[2]) * (x - l[1])
Major(l) == IF AbsH(l[3] - l[1]) >= AbsH(l[4] - l[2]) THEN AbsH(l[3] - l[1]) ELSE AbsH(l[4] - l[2])
OnLine(l, x, y) == 2 * AbsH(CrossL(l, x, y)) <= Major(l)
StrictOn(l, x, y) == 2 * AbsH(CrossL(l, x, y)) < Major(l)
\* progress along the major axis (0 at the start, Major at the end)
Prog(l, x, y) == IF AbsH(l[3] - l[1]) >= AbsH(l[4] - l[2])
                   THEN (IF l[3] >= l[1] THEN x - l[1] ELSE l[1] - x)
                   ELSE (IF l[4] >= l[2] THEN y - l[2] ELSE l[2] - y)
\* pixels strictly between two returned samples that the line certainly visits (unique nearest pixel of their column/row)
Between(l, p, q) ==
  LET lo == Prog(l, p[1], p[2])  hi == Prog(l, q[1], q[2])
      xs == (IF l[1] <= l[3] THEN l[1]..l[3] ELSE l[3]..l[1])
      ys == (IF l[2] <= l[4] THEN l[2]..l[4] ELSE l[4]..l[2]) IN
  {c \in xs \X ys : Prog(l, c[1], c[2]) > lo /\ Prog(l, c[1], c[2]) < hi /\ StrictOn(l, c[1], c[2])}

RasterPathOK(m, l, P, tol) ==
  /\ Len(P) >= 1
  /\ <<P[1][1], P[1][2]>> = <<l[1], l[2]>> /\ <<P[Len(P)][1], P[Len(P)][2]>> = <<l[3], l[4]>>     \* starts and ends at the line ends
  /\ \A i \in DOMAIN P : OnLine(l, P[i][1], P[i][2]) /\ PixelOK(m, P[i][1], P[i][2], P[i][3])   \* on the line, the map's own height
  /\ \A i \in 1..(Len(P) - 1) : Prog(l, P[i][1], P[i][2]) < Prog(l, P[i + 1][1], P[i + 1][2])     \* in order
RasterDropOK(m, l, P, tol) ==
  \* every sample dropped between two kept ones differs from the previously kept one by less than the tolerance
  \A i \in 1..(Len(P) - 1) :
     \A c \in Between(l, P[i], P[i + 1]) :
        InRange(m, c[1], c[2]) /\ InRange(m, P[i][1], P[i][2]) =>
           AbsH(HMax(m, c[1], c[2]) - HMax(m, P[i][1], P[i][2])) < (tol + 2) * m.max

\* ------------------------------------------------------------------ sparse
Orient(a, b, q) == (b[1] - a[1]) * (q[2] - a[2]) - (b[2] - a[2]) * (q[1] - a[1])
InTriangle(a, b, c, q) ==
  LET d1 == Orient(a, b, q)  d2 == Orient(b, c, q)  d3 == Orient(c, a, q) IN
  Orient(a, b, c) # 0 /\ ((d1 > 0 /\ d2 > 0 /\ d3 > 0) \/ (d1 < 0 /\ d2 < 0 /\ d3 < 0))
StrictlyInside(pts, q) ==
  \E i, j, k \in DOMAIN pts : i < j /\ j < k /\ InTriangle(pts[i], pts[j], pts[k], q)
StrictlyOutside(pts, q) ==
  \E i, j \in DOMAIN pts : i # j /\
     (\A k \in DOMAIN pts : Orient(pts[i], pts[j], pts[k]) >= 0) /\ Orient(pts[i], pts[j], q) < 0
MinZ(pts) == CHOOSE z \in {pts[i][3] : i \in DOMAIN pts} : \A i \in DOMAIN pts : z <= pts[i][3]
MaxZ(pts) == CHOOSE z \in {pts[i][3] : i \in DOMAIN pts} : \A i \in DOMAIN pts : z >= pts[i][3]
\* z, stored heights in 10^-3; scale in 10^-3
SparseOK(s, q, z) ==
  /\ (\A i \in DOMAIN s.pts : (s.pts[i][1] = q[1] /\ s.pts[i][2] = q[2]) => AbsH(z * 1000 - s.scale * s.pts[i][3]) <= 2000)
  /\ StrictlyInside(s.pts, q) => (z * 1000 >= s.scale * MinZ(s.pts) - 2000 /\ z * 1000 <= s.scale * MaxZ(s.pts) + 2000)
  /\ StrictlyOutside(s.pts, q) => z = 0

\* sample_path on sparse data: P and C (candidates) are [x, y, z] with x, y in 10^-3 units
Collinear3(l, p) == AbsH((l[3] - l[1]) * (p[2] - l[2]) - (l[4] - l[2]) * (p[1] - l[1])) <= 2 * (AbsH(l[3] - l[1]) + AbsH(l[4] - l[2])) + 2
Along(l, p) == (l[3] - l[1]) * (p[1] - l[1]) + (l[4] - l[2]) * (p[2] - l[2])
SparsePathOK(l, P) ==
  /\ Len(P) >= 1
  /\ AbsH(P[1][1] - l[1]) <= 1 /\ AbsH(P[1][2] - l[2]) <= 1
  /\ AbsH(P[Len(P)][1] - l[3]) <= 1 /\ AbsH(P[Len(P)][2] - l[4]) <= 1
  /\ \A i \in DOMAIN P : Collinear3(l, P[i])
  /\ \A i \in 1..(Len(P) - 1) : Along(l, P[i]) < Along(l, P[i + 1])
\* the candidate list the contract defines: max(floor(d / tol), 1) + 1 equidistant points
\* (tolerances of a tenth of a unit and more: hundredths; finer tolerances -- short lines only -- in thousandths)
NSeg(l, tol) == LET f  == IF tol < 100 THEN 1 ELSE 10
                    dx == (l[3] - l[1]) \div f  dy == (l[4] - l[2]) \div f  t == tol \div f
                    d2 == dx * dx + dy * dy
                    ks == {k \in 1..400 : (k * t) * (k * t) <= d2} IN
                IF ks = {} \/ t = 0 THEN 1 ELSE CHOOSE k \in ks : \A j \in ks : j <= k
\* (the count may differ by one from the exact quotient: d / tol is computed in floating point)
CandsOK(l, C, tol) ==
  LET n == Len(C) - 1 IN
  /\ n >= 1 /\ AbsH(n - NSeg(l, tol)) <= 1
  /\ \A j \in DOMAIN C : AbsH(C[j][1] * n - (l[1] * n + (l[3] - l[1]) * (j - 1))) <= n + 1
                       /\ AbsH(C[j][2] * n - (l[2] * n + (l[4] - l[2]) * (j - 1))) <= n + 1
\* every candidate is either returned or differs from the previously returned one by less than the tolerance
RECURSIVE DropWalk(_, _, _, _, _)
DropWalk(C, P, j, i, tol) ==     \* j: next candidate, i: index of the last returned sample already passed
  IF j > Len(C) THEN TRUE
  ELSE IF i < Len(P) /\ AbsH(C[j][1] - P[i + 1][1]) <= 1 /\ AbsH(C[j][2] - P[i + 1][2]) <= 1
         THEN DropWalk(C, P, j + 1, i + 1, tol)
       ELSE i >= 1 /\ AbsH(C[j][3] - P[i][3]) < tol + 2 /\ DropWalk(C, P, j + 1, i, tol)
\* (tol + 2: two thousandths of slack for heights recorded in thousandths.  On maps whose heights, tolerance and sample
\* positions are all exactly representable -- the recorder checks that in floating point and says so, `exact` -- the caller
\* passes tol - 2 and the comparison is the strict one of the property: a sample exactly one tolerance away is kept.)
SparseDropOK(C, P, tol) == DropWalk(C, P, 1, 0, tol)
=============================================================================
