---------------------------- MODULE HeightmapTrace ----------------------------
(***************************************************************************)
(* C19 on recorded executions of the real RasterHeightMap / SparseHeightMap *)
(* through their public API (get_depth_at, sample_path, set_scale,          *)
(* set_tolerance).  One event = one map with queries and sampled lines.     *)
(***************************************************************************)
EXTENDS Heightmap, Json, IOUtils, TLC

Traces == JsonDeserialize(IOEnv.TRACE_FILE)
VARIABLES tid, l, cnt
vars == <<tid, l, cnt>>
Clauses == {"C19_Pixel", "C19_RasterPath", "C19_RasterDrop", "C19_Sparse", "C19_SparsePath", "C19_SparseDrop", "C19_Flat"}

Holds(c, e) ==
  CASE c = "C19_Pixel" -> e.kind = "raster" => \A i \in DOMAIN e.queries : PixelOK(e, e.queries[i][1], e.queries[i][2], e.queries[i][3])
    [] c = "C19_RasterPath" -> e.kind = "raster" => \A i \in DOMAIN e.paths : RasterPathOK(e, e.paths[i].line, e.paths[i].pts, e.tol)
    [] c = "C19_RasterDrop" -> e.kind = "raster" => \A i \in DOMAIN e.paths : RasterDropOK(e, e.paths[i].line, e.paths[i].pts, e.tol)
    [] c = "C19_Sparse" -> e.kind = "sparse" => \A i \in DOMAIN e.queries : SparseOK(e, <<e.queries[i][1], e.queries[i][2]>>, e.queries[i][3])
    [] c = "C19_SparsePath" -> e.kind = "sparse" =>
         \A i \in DOMAIN e.paths : /\ SparsePathOK(e.paths[i].line, e.paths[i].pts)
                                   /\ \A j \in DOMAIN e.paths[i].pts : AbsH(e.paths[i].pts[j][3] - e.paths[i].requery[j]) <= 1
    [] c = "C19_SparseDrop" -> e.kind = "sparse" =>
         \A i \in DOMAIN e.paths : CandsOK(e.paths[i].line, e.paths[i].cand, e.tol) /\ SparseDropOK(e.paths[i].cand, e.paths[i].pts, IF e.exact THEN e.tol - 2 ELSE e.tol)
    \* the flat map: zero everywhere; a sampled line is its two ends at height zero
    [] c = "C19_Flat" -> e.kind = "flat" =>
         /\ \A i \in DOMAIN e.queries : e.queries[i][3] = 0
         /\ \A i \in DOMAIN e.paths :
               LET ln == e.paths[i].line  P == e.paths[i].pts IN
               Len(P) = 2 /\ P[1] = <<ln[1], ln[2], 0>> /\ P[2] = <<ln[3], ln[4], 0>>
Ante(c, e) == IF c \in {"C19_Pixel", "C19_RasterPath", "C19_RasterDrop"} THEN e.kind = "raster"
              ELSE IF c = "C19_Flat" THEN e.kind = "flat" ELSE e.kind = "sparse"

Init == tid \in 1..Len(Traces) /\ l = 1 /\ cnt = [c \in Clauses |-> 0]
Step ==
  /\ l <= Len(Traces[tid].ev)
  /\ LET e == Traces[tid].ev[l]
         bad == {c \in Clauses : ~Holds(c, e)}
     IN /\ \A c \in bad : PrintT(<<"F", tid, l, c, "">>)
        /\ cnt' = [c \in Clauses |-> cnt[c] + IF Ante(c, e) THEN 1 ELSE 0]
  /\ l' = l + 1 /\ UNCHANGED tid
Done == /\ l = Len(Traces[tid].ev) + 1 /\ PrintT(<<"D", tid, l - 1, cnt>>) /\ l' = l + 1 /\ UNCHANGED <<tid, cnt>>
Next == Step \/ Done
Spec == Init /\ [][Next]_vars
=============================================================================
