----------------------------- MODULE InterlockInd -----------------------------
(***************************************************************************)
(* C02 / C06 / C07 (tool part) over UNBOUNDED values: an inductive          *)
(* invariant for the interlock core of BuilderImpl, discharged by Apalache  *)
(* (symbolic; integers are mathematical).  Powers, tool numbers and the     *)
(* tool-power / tool-number bounds are arbitrary integers; the calls are    *)
(* those of gcode_state.py with their guards in source order:               *)
(*   builder : btool, bcool (activity flags), bpower, bounds (set, lo, hi)  *)
(*   machine : mtool (0 off, 3, 4), mcool (0 off, 7, 8), mS -- what an      *)
(*             interpreter of the emitted lines holds                       *)
(*   unsafe  : history -- a halt or tool-change line was emitted while the  *)
(*             machine's spindle / beam or coolant was on (C02_Safe), or a  *)
(*             stop call did not leave them off (C06_Off)                    *)
(* IndInv = the builder mirrors the machine (C07_Tool, C07_Coolant) and     *)
(* nothing unsafe has happened; it is inductive:                            *)
(*   apalache-mc check --init=Init    --inv=IndInv --length=0 InterlockInd.tla *)
(*   apalache-mc check --init=IndInit --inv=IndInv --length=1 InterlockInd.tla *)
(***************************************************************************)
EXTENDS Integers

VARIABLES
  \* @type: Bool;
  btool,
  \* @type: Bool;
  bcool,
  \* @type: Int;
  bpower,
  \* @type: Bool;
  pbset,
  \* @type: Int;
  pblo,
  \* @type: Int;
  pbhi,
  \* @type: Bool;
  tbset,
  \* @type: Int;
  tblo,
  \* @type: Int;
  tbhi,
  \* @type: Int;
  mtool,
  \* @type: Int;
  mcool,
  \* @type: Int;
  mS,
  \* @type: Bool;
  unsafe

PowerOk(v) == (pbset => (pblo <= v /\ v <= pbhi)) /\ v >= 0
ToolNoOk(n) == (tbset => (tblo <= n /\ n <= tbhi)) /\ n >= 1

Init ==
  /\ btool = FALSE /\ bcool = FALSE /\ bpower = 0
  /\ pbset = FALSE /\ pblo = 0 /\ pbhi = 0 /\ tbset = FALSE /\ tblo = 0 /\ tbhi = 0
  /\ mtool = 0 /\ mcool = 0 /\ mS = 0 /\ unsafe = FALSE

Rejected == UNCHANGED <<btool, bcool, bpower, pbset, pblo, pbhi, tbset, tblo, tbhi, mtool, mcool, mS, unsafe>>
KeepBounds == UNCHANGED <<pbset, pblo, pbhi, tbset, tblo, tbhi>>

\* tool_on(mode, v) / power_on(mode, v): "S<v> M03|M04"
ToolOn ==
  \E v \in Int, code \in {3, 4} :
    IF btool \/ ~PowerOk(v) THEN Rejected
    ELSE /\ btool' = TRUE /\ bpower' = v /\ mtool' = code /\ mS' = v
         /\ UNCHANGED <<bcool, mcool, unsafe>> /\ KeepBounds
\* tool_off() / power_off(): "M05", never refused (fix F4)
ToolOff ==
  /\ btool' = FALSE /\ bpower' = 0 /\ mtool' = 0
  /\ unsafe' = unsafe                      \* C06_Off: the machine's tool is off afterwards (mtool' = 0 above)
  /\ UNCHANGED <<bcool, mcool, mS>> /\ KeepBounds
CoolOn ==
  \E code \in {7, 8} :
    IF bcool THEN Rejected
    ELSE /\ bcool' = TRUE /\ mcool' = code /\ UNCHANGED <<btool, bpower, mtool, mS, unsafe>> /\ KeepBounds
CoolOff ==
  /\ bcool' = FALSE /\ mcool' = 0 /\ UNCHANGED <<btool, bpower, mtool, mS, unsafe>> /\ KeepBounds
\* tool_change(mode, n): "T<n> M06" -- refused while anything runs
ToolChange ==
  \E n \in Int :
    IF ~ToolNoOk(n) \/ btool \/ bcool THEN Rejected
    ELSE /\ unsafe' = (unsafe \/ mtool # 0 \/ mcool # 0)           \* the line goes out: was the MACHINE idle?
         /\ UNCHANGED <<btool, bcool, bpower, mtool, mcool, mS>> /\ KeepBounds
\* halt(mode) / pause() / stop() / wait(): "M00|M01|M02|M30|M60|M109|M190|M191|M400"
Halt ==
  IF btool \/ bcool THEN Rejected
  ELSE /\ unsafe' = (unsafe \/ mtool # 0 \/ mcool # 0)
       /\ UNCHANGED <<btool, bcool, bpower, mtool, mcool, mS>> /\ KeepBounds
\* emergency_halt(): "M05", "M09", comment, "M00|M30" -- never refused
Emergency ==
  /\ btool' = FALSE /\ bcool' = FALSE /\ bpower' = 0 /\ mtool' = 0 /\ mcool' = 0
  /\ unsafe' = unsafe                      \* the halt line follows M05 and M09: the machine is idle by then
  /\ UNCHANGED mS /\ KeepBounds
\* set_tool_power(v): "S<v>";  move(..., S=v): the S word is tracked the same way
SetPower ==
  \E v \in Int :
    IF ~PowerOk(v) THEN Rejected
    ELSE /\ bpower' = v /\ mS' = v /\ UNCHANGED <<btool, bcool, mtool, mcool, unsafe>> /\ KeepBounds
\* set_bounds("tool-power" | "tool-number", lo, hi): refused when lo >= hi; nothing is written
SetBounds ==
  \E lo \in Int, hi \in Int, which \in BOOLEAN :
    IF lo >= hi THEN Rejected
    ELSE /\ IF which THEN pbset' = TRUE /\ pblo' = lo /\ pbhi' = hi /\ UNCHANGED <<tbset, tblo, tbhi>>
                     ELSE tbset' = TRUE /\ tblo' = lo /\ tbhi' = hi /\ UNCHANGED <<pbset, pblo, pbhi>>
         /\ UNCHANGED <<btool, bcool, bpower, mtool, mcool, mS, unsafe>>

Next == ToolOn \/ ToolOff \/ CoolOn \/ CoolOff \/ ToolChange \/ Halt \/ Emergency \/ SetPower \/ SetBounds

\* C07_Tool / C07_Coolant (the builder mirrors the machine) and C02_Safe / C06_Off (nothing unsafe happened)
IndInv ==
  /\ btool = (mtool # 0) /\ mtool \in {0, 3, 4}
  /\ bcool = (mcool # 0) /\ mcool \in {0, 7, 8}
  /\ (btool => bpower = mS)
  /\ ~unsafe

\* an arbitrary state satisfying the invariant (Gen only in the initial predicate)
IndInit ==
  /\ btool \in BOOLEAN /\ bcool \in BOOLEAN /\ unsafe \in BOOLEAN /\ pbset \in BOOLEAN /\ tbset \in BOOLEAN
  /\ bpower \in Int /\ pblo \in Int /\ pbhi \in Int /\ tblo \in Int /\ tbhi \in Int
  /\ mtool \in {0, 3, 4} /\ mcool \in {0, 7, 8} /\ mS \in Int
  /\ IndInv
=============================================================================
