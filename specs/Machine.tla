------------------------------ MODULE Machine ------------------------------
(***************************************************************************)
(* An independent modal G-code interpreter: the reference semantics that   *)
(* properties C01, C02, C03, C04, C07, C10-C12 and C20 talk about ("what a *)
(* machine executing the emitted program does").  It knows nothing about   *)
(* gscrib.                                                                  *)
(*                                                                          *)
(* A line is a sequence of words [l |-> letter, v |-> Int].  For G and M   *)
(* words v is the code in tenths (G1 -> 10, G38.2 -> 382, M30 -> 300); for *)
(* every other letter v is the value in trace units (10^-dp).              *)
(*                                                                          *)
(* "Known machine coordinate" is defined here: unknown at power-on and     *)
(* after homing (G28) or probing (G38.x) on the axes involved; known after *)
(* G92 or an absolute word on that axis; a relative word keeps the flag.   *)
(* `slack` counts, per axis, the roundings (half units of the last decimal *)
(* place) that separate the machine from the un-rounded request: 1 after   *)
(* an absolute word or G92, one more per relative word.                     *)
(***************************************************************************)
EXTENDS Integers, Sequences, FiniteSets, SequencesExt

AxisSet == {"X", "Y", "Z"}
\* Non-axis letters whose last value on a motion-like line is a "move parameter".
ParamLetters == {"F", "S", "E", "A", "B", "I", "P", "R"}

HasW(ws, a)     == \E i \in DOMAIN ws : ws[i].l = a
FirstIdx(ws, a) == CHOOSE i \in DOMAIN ws : ws[i].l = a /\ \A j \in DOMAIN ws : ws[j].l = a => i <= j
ValW(ws, a)     == ws[FirstIdx(ws, a)].v
GC(ws)          == IF HasW(ws, "G") THEN ValW(ws, "G") ELSE -1
MC(ws)          == IF HasW(ws, "M") THEN ValW(ws, "M") ELSE -1

Unset == [set |-> FALSE, v |-> 0]
SetTo(x) == [set |-> TRUE, v |-> x]

InitMachine ==
  [ pos    |-> [a \in AxisSet |-> 0],
    known  |-> [a \in AxisSet |-> FALSE],
    slack  |-> [a \in AxisSet |-> 0],
    rel    |-> FALSE,            \* G90
    tool   |-> "off",            \* "off" | "M03" | "M04"
    S      |-> 0,
    F      |-> 0,
    coolant|-> "off",            \* "off" | "M07" | "M08"
    T      |-> 0,
    units  |-> "G21",
    plane  |-> "G17",
    fmode  |-> "G94",
    emode  |-> "M82",
    bed    |-> Unset,
    hotend |-> Unset,
    chamber|-> Unset,
    E      |-> 0,                \* filament position as a firmware tracks it
    params |-> [p \in ParamLetters |-> Unset],
    halted |-> FALSE ]

MotionCodes == {0, 10}
ProbeCodes  == {382, 383, 384, 385}
\* lines whose parameters are "move parameters" for the purpose of C07
ParamLines  == MotionCodes \cup ProbeCodes \cup {920, 280}

HaltM == {0, 10, 20, 300, 600, 1090, 1900, 1910, 4000}

NewParams(m, ws) ==
  [p \in ParamLetters |-> IF HasW(ws, p) THEN SetTo(ValW(ws, p)) ELSE m.params[p]]

TempWord(ws, old) ==
  IF HasW(ws, "S") THEN SetTo(ValW(ws, "S"))
  ELSE IF HasW(ws, "R") THEN SetTo(ValW(ws, "R")) ELSE old

ExecMotion(m, ws) ==
  [m EXCEPT
     !.pos   = [a \in AxisSet |-> IF HasW(ws, a)
                                    THEN (IF m.rel THEN m.pos[a] + ValW(ws, a) ELSE ValW(ws, a))
                                    ELSE m.pos[a]],
     !.known = [a \in AxisSet |-> m.known[a] \/ (HasW(ws, a) /\ ~m.rel)],
     !.slack = [a \in AxisSet |-> IF ~HasW(ws, a) THEN m.slack[a]
                                    ELSE IF m.rel THEN m.slack[a] + 1 ELSE 1],
     !.F     = IF HasW(ws, "F") THEN ValW(ws, "F") ELSE m.F,
     !.S     = IF HasW(ws, "S") THEN ValW(ws, "S") ELSE m.S,
     !.E     = IF HasW(ws, "E")
                 THEN (IF m.emode = "M83" THEN m.E + ValW(ws, "E") ELSE ValW(ws, "E"))
                 ELSE m.E,
     !.params = NewParams(m, ws)]

ExecProbe(m, ws) ==
  [m EXCEPT
     !.known = [a \in AxisSet |-> m.known[a] /\ ~HasW(ws, a)],
     !.slack = [a \in AxisSet |-> IF HasW(ws, a) THEN 0 ELSE m.slack[a]],
     !.F     = IF HasW(ws, "F") THEN ValW(ws, "F") ELSE m.F,
     !.S     = IF HasW(ws, "S") THEN ValW(ws, "S") ELSE m.S,
     !.params = NewParams(m, ws)]

ExecHome(m, ws) ==
  LET any == \E a \in AxisSet : HasW(ws, a) IN
  [m EXCEPT
     !.known = [a \in AxisSet |-> m.known[a] /\ any /\ ~HasW(ws, a)],
     !.slack = [a \in AxisSet |-> IF (~any \/ HasW(ws, a)) THEN 0 ELSE m.slack[a]],
     !.params = NewParams(m, ws)]

ExecSetAxis(m, ws) ==
  [m EXCEPT
     !.pos   = [a \in AxisSet |-> IF HasW(ws, a) THEN ValW(ws, a) ELSE m.pos[a]],
     !.known = [a \in AxisSet |-> m.known[a] \/ HasW(ws, a)],
     !.slack = [a \in AxisSet |-> IF HasW(ws, a) THEN 1 ELSE m.slack[a]],
     !.E     = IF HasW(ws, "E") THEN ValW(ws, "E") ELSE m.E,
     !.params = NewParams(m, ws)]

ExecLine(m, ws) ==
  LET g == GC(ws)  mc == MC(ws) IN
  IF ws = <<>> THEN m
  ELSE IF g \in MotionCodes THEN ExecMotion(m, ws)
  ELSE IF g \in ProbeCodes THEN ExecProbe(m, ws)
  ELSE IF g = 920 THEN ExecSetAxis(m, ws)
  ELSE IF g = 280 THEN ExecHome(m, ws)
  ELSE IF g = 900 THEN [m EXCEPT !.rel = FALSE]
  ELSE IF g = 910 THEN [m EXCEPT !.rel = TRUE]
  ELSE IF g = 200 THEN [m EXCEPT !.units = "G20"]
  ELSE IF g = 210 THEN [m EXCEPT !.units = "G21"]
  ELSE IF g = 170 THEN [m EXCEPT !.plane = "G17"]
  ELSE IF g = 180 THEN [m EXCEPT !.plane = "G18"]
  ELSE IF g = 190 THEN [m EXCEPT !.plane = "G19"]
  ELSE IF g = 930 THEN [m EXCEPT !.fmode = "G93"]
  ELSE IF g = 940 THEN [m EXCEPT !.fmode = "G94"]
  ELSE IF g = 950 THEN [m EXCEPT !.fmode = "G95"]
  ELSE IF g >= 0 THEN m                                   \* G4 and anything else: no modal effect
  ELSE IF mc = 30 THEN [m EXCEPT !.tool = "M03", !.S = IF HasW(ws, "S") THEN ValW(ws, "S") ELSE m.S]
  ELSE IF mc = 40 THEN [m EXCEPT !.tool = "M04", !.S = IF HasW(ws, "S") THEN ValW(ws, "S") ELSE m.S]
  ELSE IF mc = 50 THEN [m EXCEPT !.tool = "off"]
  ELSE IF mc = 70 THEN [m EXCEPT !.coolant = "M07"]
  ELSE IF mc = 80 THEN [m EXCEPT !.coolant = "M08"]
  ELSE IF mc = 90 THEN [m EXCEPT !.coolant = "off"]
  ELSE IF mc = 60 THEN [m EXCEPT !.T = IF HasW(ws, "T") THEN ValW(ws, "T") ELSE m.T]
  ELSE IF mc = 820 THEN [m EXCEPT !.emode = "M82"]
  ELSE IF mc = 830 THEN [m EXCEPT !.emode = "M83"]
  ELSE IF mc \in {1040, 1090} THEN [m EXCEPT !.hotend = TempWord(ws, m.hotend)]
  ELSE IF mc \in {1400, 1900} THEN [m EXCEPT !.bed = TempWord(ws, m.bed)]
  ELSE IF mc \in {1410, 1910} THEN [m EXCEPT !.chamber = TempWord(ws, m.chamber)]
  ELSE IF mc >= 0 THEN m
  ELSE \* a line with neither G nor M: bare modal words
       [m EXCEPT !.F = IF HasW(ws, "F") THEN ValW(ws, "F") ELSE m.F,
                 !.S = IF HasW(ws, "S") THEN ValW(ws, "S") ELSE m.S]

\* lines : sequence of records with a field ws
Exec(m, lines) == FoldLeft(LAMBDA acc, ln : ExecLine(acc, ln.ws), m, lines)

\* machine state before line i of a call
Before(m, lines, i) == Exec(m, SubSeq(lines, 1, i - 1))

-----------------------------------------------------------------------------
(* Unsafe lines (C02), judged on the emitted code and the interpreter's own *)
(* tool / coolant state.                                                    *)
ToolStart(ws)  == MC(ws) \in {30, 40} /\ GC(ws) = -1
CoolStart(ws)  == MC(ws) \in {70, 80} /\ GC(ws) = -1
Guarded(ws)    == GC(ws) = -1 /\ MC(ws) \in (HaltM \cup {60})

Unsafe(m, ws) ==
  \/ ToolStart(ws) /\ m.tool # "off"
  \/ CoolStart(ws) /\ m.coolant # "off"
  \/ Guarded(ws) /\ (m.tool # "off" \/ m.coolant # "off")
=============================================================================
