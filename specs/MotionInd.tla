------------------------------ MODULE MotionInd ------------------------------
(***************************************************************************)
(* C01 over UNBOUNDED coordinates: an inductive invariant for the motion    *)
(* core, discharged by Apalache (symbolic; integers are mathematical).      *)
(* The model is the position / distance-mode part of BuilderImpl and of     *)
(* Machine.tla with every coordinate and offset an arbitrary integer:       *)
(*   builder : bk[a] (coordinate tracked), bp[a], brel                       *)
(*   machine : mk[a] (coordinate known),   mp[a], mrel                       *)
(* Axes are 1..3.  IndInv is C01_Pos /\ C01_Mode on the exact grid; it is   *)
(* inductive:  Init => IndInv   and   IndInv /\ Next => IndInv'.            *)
(*   apalache-mc check --init=Init    --inv=IndInv --length=0 MotionInd.tla *)
(*   apalache-mc check --init=IndInit --inv=IndInv --length=1 MotionInd.tla *)
(***************************************************************************)
EXTENDS Integers

VARIABLES
  \* @type: Int -> Bool;
  bk,
  \* @type: Int -> Int;
  bp,
  \* @type: Bool;
  brel,
  \* @type: Int -> Bool;
  mk,
  \* @type: Int -> Int;
  mp,
  \* @type: Bool;
  mrel

Ax == 1..3
Res(i) == IF bk[i] THEN bp[i] ELSE 0          \* Point.resolve(): unknown counts as zero

Init ==
  /\ bk = [i \in Ax |-> FALSE] /\ bp = [i \in Ax |-> 0] /\ brel = FALSE
  /\ mk = [i \in Ax |-> FALSE] /\ mp = [i \in Ax |-> 0] /\ mrel = FALSE

\* move() / rapid(): req[i] says whether axis i is mentioned, val[i] the coordinate or offset
MoveLike ==
  \E req \in [Ax -> BOOLEAN], val \in [Ax -> Int] :
    /\ bk' = [i \in Ax |-> TRUE]                                         \* to_absolute resolves every axis
    /\ bp' = [i \in Ax |-> IF brel THEN Res(i) + (IF req[i] THEN val[i] ELSE 0)
                           ELSE IF req[i] THEN val[i] ELSE Res(i)]
    \* the emitted line mentions exactly the requested axes: target (absolute) or offset (relative)
    /\ mp' = [i \in Ax |-> IF req[i] THEN (IF mrel THEN mp[i] + val[i] ELSE val[i]) ELSE mp[i]]
    /\ mk' = [i \in Ax |-> mk[i] \/ (req[i] /\ ~mrel)]
    /\ UNCHANGED <<brel, mrel>>
\* move_absolute() / rapid_absolute(): G90, the move, G91 again when the mode was relative
Bypass ==
  \E req \in [Ax -> BOOLEAN], val \in [Ax -> Int] :
    /\ bk' = [i \in Ax |-> bk[i] \/ req[i]]
    /\ bp' = [i \in Ax |-> IF req[i] THEN val[i] ELSE bp[i]]
    /\ mp' = [i \in Ax |-> IF req[i] THEN val[i] ELSE mp[i]]
    /\ mk' = [i \in Ax |-> mk[i] \/ req[i]]
    /\ UNCHANGED <<brel, mrel>>
\* set_axis(): G92
SetAxis ==
  \E req \in [Ax -> BOOLEAN], val \in [Ax -> Int] :
    /\ bk' = [i \in Ax |-> bk[i] \/ req[i]]
    /\ bp' = [i \in Ax |-> IF req[i] THEN val[i] ELSE bp[i]]
    /\ mp' = [i \in Ax |-> IF req[i] THEN val[i] ELSE mp[i]]
    /\ mk' = [i \in Ax |-> mk[i] \/ req[i]]
    /\ UNCHANGED <<brel, mrel>>
\* auto_home() (all axes when none is named) and probe(): the axes involved become unknown on both sides
HomeOrProbe ==
  \E req \in [Ax -> BOOLEAN], all \in BOOLEAN, probe \in BOOLEAN :
    LET hit(i) == IF probe THEN req[i] ELSE (all \/ req[i]) IN
    /\ bk' = [i \in Ax |-> IF probe THEN ~hit(i) ELSE (bk[i] /\ ~hit(i))]   \* a probe resolves the other axes
    /\ bp' = [i \in Ax |-> IF probe /\ ~hit(i) THEN Res(i) ELSE bp[i]]
    /\ mk' = [i \in Ax |-> mk[i] /\ ~hit(i)]
    /\ UNCHANGED <<mp, brel, mrel>>
\* set_distance_mode() and the mode context managers
SetMode ==
  \E r \in BOOLEAN : brel' = r /\ mrel' = r /\ UNCHANGED <<bk, bp, mk, mp>>

Next == MoveLike \/ Bypass \/ SetAxis \/ HomeOrProbe \/ SetMode

\* C01: on every axis whose machine coordinate is known the builder tracks the same coordinate; same distance mode
IndInv ==
  /\ brel = mrel
  /\ \A i \in Ax : mk[i] => (bk[i] /\ bp[i] = mp[i])
\* any state satisfying the invariant (typed) as the starting point of the inductive step
IndInit ==
  /\ bk \in [Ax -> BOOLEAN] /\ bp \in [Ax -> Int] /\ brel \in BOOLEAN
  /\ mk \in [Ax -> BOOLEAN] /\ mp \in [Ax -> Int] /\ mrel \in BOOLEAN
  /\ IndInv
=============================================================================
