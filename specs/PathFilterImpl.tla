--------------------------- MODULE PathFilterImpl ---------------------------
(***************************************************************************)
(* Implementation-shaped model of RasterHeightMap._filter_points /          *)
(* SparseHeightMap._filter_points over sequences of candidate heights:       *)
(*   keep the first; keep a candidate when |h - last_kept_h| >= tolerance;   *)
(*   append the last candidate if it was not kept.                           *)
(* TLC enumerates all height sequences over Heights up to MaxLen.            *)
(***************************************************************************)
EXTENDS Integers, Sequences, TLC

CONSTANTS Heights, MaxLen, Tols
VARIABLES hs, tol
vars == <<hs, tol>>

AbsP(x) == IF x < 0 THEN -x ELSE x
RECURSIVE Walk(_, _, _, _)
Walk(s, i, lastz, acc) ==          \* acc: indices kept
  IF i > Len(s) THEN acc
  ELSE IF AbsP(s[i] - lastz) >= tol THEN Walk(s, i + 1, s[i], Append(acc, i)) ELSE Walk(s, i + 1, lastz, acc)
Kept == LET k == Walk(hs, 1, hs[1], <<1>>) IN IF k[Len(k)] = Len(hs) THEN k ELSE Append(k, Len(hs))

Init == hs \in {<<h>> : h \in Heights} /\ tol \in Tols
Grow == Len(hs) < MaxLen /\ \E h \in Heights : hs' = Append(hs, h) /\ UNCHANGED tol
Spec == Init /\ [][Grow]_vars

EndsKept == Kept[1] = 1 /\ Kept[Len(Kept)] = Len(hs)
InOrder  == \A i \in 1..(Len(Kept) - 1) : Kept[i] <= Kept[i + 1]
\* every dropped candidate differs from the previously kept one by less than the tolerance
DropRule == \A j \in DOMAIN hs : (\A i \in DOMAIN Kept : Kept[i] # j) =>
               LET before == {i \in DOMAIN Kept : Kept[i] < j}
                   p == Kept[CHOOSE i \in before : \A i2 \in before : i2 <= i] IN
               AbsP(hs[j] - hs[p]) < tol
=============================================================================
