------------------------------ MODULE Reports ------------------------------
(***************************************************************************)
(* Contract for C18: what the caller can read back after a device report.  *)
(* A report is a sequence of tokens [key, vals] in the order they appear   *)
(* in the line (values in milli-units), with flags                          *)
(*    grbl : the line is a Grbl status report "<...>"                       *)
(*    ok   : the line starts with "ok" (Marlin answers M105 that way).      *)
(* Extract gives, per reading letter, the value that appears FIRST in the   *)
(* report; Update keeps earlier readings for letters not mentioned.          *)
(***************************************************************************)
EXTENDS Integers, Sequences, FiniteSets

Letters == {"X", "Y", "Z", "A", "B", "C", "E", "F", "S", "T"}
AxesSeq == <<"X", "Y", "Z", "A", "B", "C">>
None == [k |-> FALSE, v |-> 0]
Some(x) == [k |-> TRUE, v |-> x]

\* the (letter, value) pairs a token stands for, in order
Pairs(tok, grbl) ==
  IF Len(tok.key) = 1 /\ tok.key \in Letters THEN <<[l |-> tok.key, v |-> tok.vals[1]]>>
  ELSE IF tok.key = "FS" /\ grbl /\ Len(tok.vals) = 2 THEN <<[l |-> "F", v |-> tok.vals[1]], [l |-> "S", v |-> tok.vals[2]]>>
  ELSE IF tok.key \in {"MPos", "WPos", "PRB"} THEN
       [i \in 1..(IF Len(tok.vals) < 6 THEN Len(tok.vals) ELSE 6) |-> [l |-> AxesSeq[i], v |-> tok.vals[i]]]
  ELSE <<>>
RECURSIVE AllPairs(_, _)
AllPairs(toks, grbl) == IF toks = <<>> THEN <<>> ELSE Pairs(Head(toks), grbl) \o AllPairs(Tail(toks), grbl)

Extract(rep) ==
  LET ps == AllPairs(rep.toks, rep.grbl) IN
  [l \in Letters |->
     IF \E i \in DOMAIN ps : ps[i].l = l
       THEN Some(ps[CHOOSE i \in DOMAIN ps : ps[i].l = l /\ \A j \in DOMAIN ps : ps[j].l = l => i <= j].v)
       ELSE None]
Update(readings, rep) ==
  LET x == Extract(rep) IN [l \in Letters |-> IF x[l].k THEN x[l] ELSE readings[l]]
NoReadings == [l \in Letters |-> None]
=============================================================================
