---------------------------- MODULE ReportsImpl ----------------------------
(***************************************************************************)
(* Implementation-shaped model of PrintrunWriter._on_device_message /      *)
(* _parse_message / _update_param (writers/printrun_writer.py): the regex   *)
(* matches become the token sequence; _reported_params is cleared per       *)
(* message and makes the first occurrence win.                              *)
(* Named deviation OkBranchReturnsFirst (finding F10, repaired): a line     *)
(* starting with "ok" was acknowledged and returned before being parsed.     *)
(***************************************************************************)
EXTENDS Reports, TLC

CONSTANTS Keys, Vals, MaxToks, MaxReports, OkBranchReturnsFirst

VARIABLES readings,   \* PrintrunWriter._current_params (the implementation)
          expect,     \* what the contract says
          n
vars == <<readings, expect, n>>

TokSeqs == UNION {[1..k -> [key : Keys, vals : {<<a>> : a \in Vals} \cup {<<a, b>> : a \in Vals, b \in Vals} \cup {<<a, b, c>> : a \in Vals, b \in Vals, c \in Vals}]] : k \in 1..MaxToks}

\* _parse_message: iterate over the matches, _update_param ignores a letter already reported in this message
RECURSIVE Parse(_, _, _, _)
Parse(toks, grbl, cur, seen) ==
  IF toks = <<>> THEN cur
  ELSE LET ps == Pairs(Head(toks), grbl)
           step(acc, p) == IF p.l \in acc.seen THEN acc
                           ELSE [cur |-> [acc.cur EXCEPT ![p.l] = Some(p.v)], seen |-> acc.seen \cup {p.l}]
           RECURSIVE fold(_, _)
           fold(acc, s) == IF s = <<>> THEN acc ELSE fold(step(acc, Head(s)), Tail(s))
           r == fold([cur |-> cur, seen |-> seen], ps)
       IN Parse(Tail(toks), grbl, r.cur, r.seen)

Receive ==
  /\ n < MaxReports
  /\ \E toks \in TokSeqs, grbl \in BOOLEAN, ok \in BOOLEAN :
       LET rep == [toks |-> toks, grbl |-> grbl, ok |-> ok] IN
       /\ readings' = IF ok /\ OkBranchReturnsFirst THEN readings ELSE Parse(toks, grbl, readings, {})
       /\ expect' = Update(expect, rep)
  /\ n' = n + 1

Init == readings = NoReadings /\ expect = NoReadings /\ n = 0
Spec == Init /\ [][Receive]_vars
Agrees == readings = expect
=============================================================================
