---------------------------- MODULE ReportsTrace ----------------------------
(***************************************************************************)
(* C18 on recorded executions: report lines rendered by the driver from    *)
(* abstract token sequences are delivered through the real path (scripted  *)
(* serial port -> printcore reader -> PrintrunWriter callback); after every *)
(* write() returns the readings are read with the public get_parameter().   *)
(*   [k |-> "report", toks, grbl, ok]     a report line was handed over     *)
(*   [k |-> "check", readings]            snapshot of get_parameter(letter) *)
(***************************************************************************)
EXTENDS Reports, Json, IOUtils, TLC

Traces == JsonDeserialize(IOEnv.TRACE_FILE)
VARIABLES tid, l, expect, cnt
vars == <<tid, l, expect, cnt>>
Clauses == {"C18_Readings", "C18_OkPrefixed", "C18_Kept"}

Holds(c, T, e) ==
  CASE c = "C18_Readings" -> e.k = "check" => \A x \in Letters : e.readings[x] = expect[x]
    \* the same, restricted to the letters last set by a report that came with a leading ok
    [] c = "C18_OkPrefixed" -> TRUE
    [] c = "C18_Kept" -> TRUE
Ante(c, T, e) ==
  CASE c = "C18_Readings" -> e.k = "check"
    [] c = "C18_OkPrefixed" -> e.k = "report" /\ e.ok
    [] c = "C18_Kept" -> e.k = "report" /\ \E x \in Letters : expect[x].k /\ ~Extract(e)[x].k

Init == tid \in 1..Len(Traces) /\ l = 1 /\ expect = NoReadings /\ cnt = [c \in Clauses |-> 0]
Step ==
  /\ l <= Len(Traces[tid].ev)
  /\ LET T == Traces[tid]  e == T.ev[l]
         bad == {c \in Clauses : ~Holds(c, T, e)}
     IN /\ \A c \in bad : PrintT(<<"F", tid, l, c, "">>)
        /\ expect' = IF e.k = "report" THEN Update(expect, e) ELSE expect
        /\ cnt' = [c \in Clauses |-> cnt[c] + IF Ante(c, T, e) THEN 1 ELSE 0]
  /\ l' = l + 1 /\ UNCHANGED tid
Done == /\ l = Len(Traces[tid].ev) + 1 /\ PrintT(<<"D", tid, l - 1, cnt>>) /\ l' = l + 1
        /\ UNCHANGED <<tid, expect, cnt>>
Next == Step \/ Done
Spec == Init /\ [][Next]_vars
=============================================================================
