----------------------------- MODULE SenderImpl -----------------------------
(***************************************************************************)
(* Implementation-shaped model of the bundled Printrun sender streaming a  *)
(* job over a serial link (printrun/printcore.py): the print thread        *)
(* (_print/_sendnext), the reader thread (_listen), the shared variables   *)
(* with the names they have in the source (clear, resendfrom, lineno,      *)
(* queueindex, printing, sentlines), the wire in both directions as FIFOs, *)
(* and a Marlin-style firmware:                                             *)
(*   intact "M110 N<k>"        -> expected := k + 1, reply ok               *)
(*   intact line, N = expected -> accept, expected + 1, reply ok            *)
(*   anything else             -> reply "Resend: expected", then ok         *)
(* Any transmission may be corrupted (at most MaxCorrupt in a behaviour),   *)
(* including the M110 and retransmitted lines.                              *)
(*                                                                          *)
(* Deliberate deviations from an ideal sender, as in the source:            *)
(*   ResendLineAlsoClears : a "Resend" line sets `clear` and so does the    *)
(*        "ok" that follows it, which lets the host run one line ahead      *)
(*        (finding F11);                                                     *)
(*   M110NotRetransmitted : "M110" is never stored in sentlines (F13).      *)
(***************************************************************************)
EXTENDS Integers, Sequences, FiniteSets, SequencesExt, TLC

CONSTANTS NLines,      \* job = commands 1..NLines (all executable)
          MaxCorrupt,
          AdvanceAfterSend   \* TRUE: the code before fix F21 -- a retransmission went out first and resendfrom was incremented
                             \* afterwards, so a reply handled in between (the reader thread runs during the write) was overwritten

VARIABLES
  \* host (names as in printcore)
  printing, clear, resendfrom, lineno, queueindex, sentlines, started,
  pendinc,             \* the print thread is between the write of a retransmission and `resendfrom += 1` (AdvanceAfterSend only)
  \* link
  wire,      \* host -> firmware: sequence of [n, cmd, bad]; cmd 0 = M110
  replies,   \* firmware -> host: sequence of [k |-> "ok"] / [k |-> "resend", n |-> i]
  \* firmware
  expected, accepted,
  \* bookkeeping (history)
  ncorrupt, ntx, nokc, piped, m110bad
vars == <<printing, clear, resendfrom, lineno, queueindex, sentlines, started, pendinc, wire, replies,
          expected, accepted, ncorrupt, ntx, nokc, piped, m110bad>>

Job == [i \in 1..NLines |-> i]
M110 == 0

\* put a transmission on the wire; it may arrive corrupted
Tx(n, cmd) ==
  \E bad \in BOOLEAN :
     /\ (bad => ncorrupt < MaxCorrupt)
     /\ wire' = Append(wire, [n |-> n, cmd |-> cmd, bad |-> bad])
     /\ ncorrupt' = IF bad THEN ncorrupt + 1 ELSE ncorrupt
     /\ ntx' = ntx + 1
     /\ piped' = (piped \/ ntx > nokc)            \* an earlier transmission's final ok was not consumed yet
     /\ m110bad' = (m110bad \/ (bad /\ cmd = M110))

\* startprint(): state reset and the first M110 (sent by the caller's thread)
StartPrint ==
  /\ ~started
  /\ started' = TRUE /\ printing' = TRUE /\ clear' = FALSE /\ resendfrom' = -1
  /\ queueindex' = 0 /\ lineno' = 0
  /\ Tx(-1, M110)
  /\ UNCHANGED <<sentlines, pendinc, replies, expected, accepted, nokc>>

\* one pass of _sendnext() once `clear` was seen
SendNext ==
  /\ started /\ printing /\ clear /\ ~pendinc
  /\ IF resendfrom < lineno /\ resendfrom > -1
       THEN /\ Tx(resendfrom, sentlines[resendfrom])
            /\ IF AdvanceAfterSend THEN resendfrom' = resendfrom /\ pendinc' = TRUE
                                    ELSE resendfrom' = resendfrom + 1 /\ pendinc' = FALSE
            /\ clear' = FALSE
            /\ UNCHANGED <<printing, lineno, queueindex, sentlines>>
     ELSE IF queueindex < NLines
       THEN /\ Tx(lineno, Job[queueindex + 1])
            /\ sentlines' = [sentlines EXCEPT ![lineno] = Job[queueindex + 1]]
            /\ lineno' = lineno + 1 /\ queueindex' = queueindex + 1
            /\ resendfrom' = -1
            /\ clear' = FALSE
            /\ UNCHANGED <<printing, pendinc>>
       ELSE \* end of job: printing off, counters reset, closing M110
            /\ printing' = FALSE /\ clear' = TRUE /\ queueindex' = 0 /\ lineno' = 0
            /\ resendfrom' = -1
            /\ Tx(-1, M110)
            /\ UNCHANGED <<sentlines, pendinc>>
  /\ UNCHANGED <<started, replies, expected, accepted, nokc>>

\* the second half of the retransmission step of the old code: `self.resendfrom += 1` after _send() returned
ResendInc ==
  /\ pendinc
  /\ resendfrom' = resendfrom + 1 /\ pendinc' = FALSE
  /\ UNCHANGED <<printing, clear, lineno, queueindex, sentlines, started, wire, replies,
                 expected, accepted, ncorrupt, ntx, nokc, piped, m110bad>>

\* firmware takes the next transmission off the wire
Firmware ==
  /\ wire # <<>>
  /\ LET t == Head(wire) IN
     /\ wire' = Tail(wire)
     /\ IF ~t.bad /\ t.cmd = M110
          THEN expected' = t.n + 1 /\ accepted' = accepted /\ replies' = Append(replies, [k |-> "ok", n |-> 0])
        ELSE IF ~t.bad /\ t.n = expected
          THEN expected' = expected + 1 /\ accepted' = Append(accepted, t.cmd)
               /\ replies' = Append(replies, [k |-> "ok", n |-> 0])
        ELSE expected' = expected /\ accepted' = accepted
             /\ replies' = replies \o <<[k |-> "resend", n |-> expected], [k |-> "ok", n |-> 0]>>
  /\ UNCHANGED <<printing, clear, resendfrom, lineno, queueindex, sentlines, started, pendinc, ncorrupt, ntx, nokc, piped, m110bad>>

\* _listen(): one line from the device
Reader ==
  /\ replies # <<>>
  /\ LET r == Head(replies) IN
     /\ replies' = Tail(replies)
     /\ clear' = TRUE                                   \* ok sets clear; ResendLineAlsoClears
     /\ resendfrom' = IF r.k = "resend" THEN r.n ELSE resendfrom
     /\ nokc' = IF r.k = "ok" THEN nokc + 1 ELSE nokc
  /\ UNCHANGED <<printing, lineno, queueindex, sentlines, started, pendinc, wire, expected, accepted, ncorrupt, ntx, piped, m110bad>>

Init ==
  /\ printing = FALSE /\ clear = TRUE /\ resendfrom = -1 /\ lineno = 0 /\ queueindex = 0
  /\ sentlines = [i \in 0..(NLines - 1) |-> 0] /\ started = FALSE /\ pendinc = FALSE
  /\ wire = <<>> /\ replies = <<>> /\ expected = 1 /\ accepted = <<>>
  /\ ncorrupt = 0 /\ ntx = 0 /\ nokc = 0 /\ piped = FALSE /\ m110bad = FALSE

Next == StartPrint \/ SendNext \/ ResendInc \/ Firmware \/ Reader
Spec == Init /\ [][Next]_vars /\ WF_vars(Next)

-----------------------------------------------------------------------------
Quiescent == started /\ ~printing /\ wire = <<>> /\ replies = <<>>
\* C15: the firmware ends up accepting every job line exactly once, in order ...
CompleteStrict == Quiescent => accepted = Job                 \* expected to FAIL: findings F11, F13
\* ... which holds on every behaviour outside the two findings
CompleteModuloFindings == Quiescent => (accepted = Job \/ piped \/ m110bad)
\* never a duplicate or out-of-order line, whatever happens (unless the numbering itself was lost)
InOrder == ~m110bad => IsPrefix(accepted, Job)
\* line numbers on the wire: a fresh line carries the next number, a resend an earlier one
TypeOK == /\ lineno \in 0..NLines /\ queueindex \in 0..NLines /\ resendfrom \in -1..(NLines + 1)
          /\ Len(wire) <= 3 /\ Len(replies) <= 6
\* the job always terminates (no deadlock between host and firmware)
Terminates == <>Quiescent
=============================================================================
