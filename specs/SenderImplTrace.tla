--------------------------- MODULE SenderImplTrace ---------------------------
(***************************************************************************)
(* Implementation-level trace validation for the sender: is a recorded     *)
(* execution of the real printcore a behaviour of SenderImpl?               *)
(* Logged events are matched to the model's own actions                     *)
(*    tx   <-> StartPrint / SendNext  (line number, command, corruption)    *)
(*    rel  <-> Reader                 (the reply line the reader took)      *)
(*    end  <-> the quiescent state                                           *)
(* and the firmware's steps, which the log does not show, are inferred by    *)
(* TLC (silent Firmware steps between events).  A trace that cannot be       *)
(* matched is DRIFT between model and code (a NOTE, never an alarm): the     *)
(* contract-level SenderTrace decides the property.  An accepted trace means *)
(* the exhaustive results for SenderImpl speak about this execution.          *)
(* One TLC run handles all recorded jobs of one length (NLines).              *)
(***************************************************************************)
EXTENDS SenderImpl, Json, IOUtils

Traces == JsonDeserialize(IOEnv.TRACE_FILE)
VARIABLES tid, l
tvars == <<printing, clear, resendfrom, lineno, queueindex, sentlines, started, pendinc, wire, replies,
           expected, accepted, ncorrupt, ntx, nokc, piped, m110bad, tid, l>>

Ev == Traces[tid].ev[l]
More == l <= Len(Traces[tid].ev)

TInit == Init /\ tid \in 1..Len(Traces) /\ l = 1
TxStep ==
  /\ More /\ Ev.k = "tx"
  /\ (StartPrint \/ SendNext)
  /\ LET w == wire'[Len(wire')] IN w.n = Ev.n /\ w.cmd = Ev.cmd /\ w.bad = Ev.bad
  /\ l' = l + 1 /\ UNCHANGED tid
RelStep ==
  /\ More /\ Ev.k = "rel"
  /\ replies # <<>> /\ Head(replies).k = Ev.kind /\ (Ev.kind = "resend" => Head(replies).n = Ev.n)
  /\ Reader
  /\ l' = l + 1 /\ UNCHANGED tid
FwStep == (Firmware \/ ResendInc) /\ UNCHANGED <<tid, l>>          \* not logged: inferred
EndStep ==
  /\ More /\ Ev.k = "end"
  /\ ~printing /\ wire = <<>> /\ replies = <<>>
  /\ PrintT(<<"A", tid>>)
  /\ l' = l + 1
  /\ UNCHANGED <<printing, clear, resendfrom, lineno, queueindex, sentlines, started, pendinc, wire, replies,
                 expected, accepted, ncorrupt, ntx, nokc, piped, m110bad, tid>>
TNext == TxStep \/ RelStep \/ FwStep \/ EndStep
TSpec == TInit /\ [][TNext]_tvars
=============================================================================
