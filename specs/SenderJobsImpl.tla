---------------------------- MODULE SenderJobsImpl ----------------------------
(***************************************************************************)
(* Beyond the listed properties: the whole job life cycle of the bundled    *)
(* sender (printrun/printcore.py): startprint, pause, resume, cancelprint,  *)
(* a second startprint, the host command ";@pause" inside a job, and the    *)
(* priority queue.  SenderPauseImpl (one job, pause / resume) is the        *)
(* special case NJobs = 1, MaxCancels = 0, HostPauseAt = {}.                *)
(*                                                                          *)
(*   startprint(job)  refused while printing; queueindex := 0, resendfrom   *)
(*                    := -1, clear := FALSE, line counter reset (M110 N-1   *)
(*                    goes out at once), a print thread is started          *)
(*   cancelprint()    pause() (printing := FALSE, the print thread is       *)
(*                    joined), then paused := FALSE, mainqueue := None,     *)
(*                    clear := TRUE -- the line counter, sentlines and      *)
(*                    resendfrom are left as they are                       *)
(*   ";@pause"        a job entry that is not sent: the print thread calls  *)
(*                    pause() itself, steps over the entry and leaves       *)
(*   natural end      printing := FALSE, queueindex := 0 and a closing      *)
(*                    M110 N-1 -- unless paused                             *)
(* The user (and the conformance harness) waits for the link to drain       *)
(* before the next startprint; what happens otherwise is finding F11        *)
(* (transmissions while replies are in flight) and not modelled again.      *)
(*                                                                          *)
(* Claims: every job that is not cancelled is accepted by the firmware      *)
(* completely, once, in order; of a cancelled job a prefix is accepted;     *)
(* jobs do not mix; the print thread never dies; every restore command of   *)
(* resume() is executed.                                                    *)
(***************************************************************************)
EXTENDS Integers, Sequences, FiniteSets, SequencesExt, TLC

CONSTANTS NLines,        \* entries per job (sendable lines and host commands)
          NJobs,         \* startprint() calls
          MaxCorrupt, MaxPauses, MaxCancels, NRestore,
          HostPauseAt,   \* entries (1-based) of job 1 that are the host command ";@pause"
          PauseClearsSentlines,  \* TRUE: the code before fix F18
          ResendAnalysed,        \* TRUE: the code as it is -- _send() feeds every transmission, resends included, to the analyser
          QuietPause             \* TRUE: the user pauses only while nothing is in flight (separates the two causes of F19)

VARIABLES printing, paused, clear, resendfrom, lineno, queueindex, sentlines, priq, job, cancelled,
          wire, replies, expected, accepted, executed,
          ncorrupt, ntx, nokc, piped, m110bad, npause, ncancel, nresume, dead, done,
          resuming, nput,  \* resume() is not atomic: it queues its restore commands one by one, then restarts the print
          an, mpos, pauseX, moved   \* where the host's analyser / the machine is (every job line is a relative move of one step)
vars == <<printing, paused, clear, resendfrom, lineno, queueindex, sentlines, priq, job, cancelled,
          wire, replies, expected, accepted, executed, ncorrupt, ntx, nokc, piped, m110bad, npause, ncancel, nresume, dead, done, resuming, nput, an, mpos, pauseX, moved>>

M110 == 0
PRI  == -2
\* resume(): "G90", then "G1 X<pauseX> Y<pauseY>", ...: the restore move carries its target (command 200 + x)
MoveIdx == IF NRestore >= 2 THEN 2 ELSE 1
IsMove(c) == c >= 200 /\ c < 300
IsHost(j, q) == j = 1 /\ (q + 1) \in HostPauseAt                 \* entry q (0-based) of job j is ";@pause"
Cmd(j, q) == 10 * j + q + 1
JobOf(c) == c \div 10
Sendable(j) == SelectSeq([i \in 1..NLines |-> i - 1], LAMBDA q : ~IsHost(j, q))
JobLines(j) == [k \in 1..Len(Sendable(j)) |-> Cmd(j, Sendable(j)[k])]

IsJobCmd(c) == c >= 10 /\ c < 100
TxA(n, cmd, opening, first) ==
  \E bad \in BOOLEAN :
     /\ an' = IF IsJobCmd(cmd) /\ (first \/ ResendAnalysed) THEN an + 1 ELSE an     \* printcore._send(): analyzer.append(command)
     /\ (bad => (ncorrupt < MaxCorrupt /\ n # PRI))
     /\ wire' = Append(wire, [n |-> n, cmd |-> cmd, bad |-> bad])
     /\ ncorrupt' = IF bad THEN ncorrupt + 1 ELSE ncorrupt
     /\ ntx' = ntx + 1
     /\ piped' = (piped \/ ntx > nokc)
     /\ m110bad' = (m110bad \/ (bad /\ opening))
Tx(n, cmd, opening) == TxA(n, cmd, opening, TRUE)

Quiet == wire = <<>> /\ replies = <<>>

StartPrint ==
  /\ ~printing /\ ~paused /\ job < NJobs /\ Quiet /\ priq = <<>>
  /\ job' = job + 1 /\ cancelled' = FALSE
  /\ printing' = TRUE /\ clear' = FALSE /\ resendfrom' = -1 /\ queueindex' = 0 /\ lineno' = 0
  /\ Tx(-1, M110, TRUE)
  /\ UNCHANGED <<paused, sentlines, priq, replies, expected, accepted, executed, nokc, npause, ncancel, nresume, dead, done, resuming, nput, mpos, pauseX, moved>>

ClearedLines == [i \in 0..(NLines - 1) |-> 0]
Dies == resendfrom < lineno /\ resendfrom > -1 /\ sentlines[resendfrom] = 0
SendNext ==
  /\ printing /\ clear /\ ~dead
  /\ dead' = Dies
  /\ IF Dies
       THEN /\ clear' = FALSE
            /\ UNCHANGED <<printing, paused, resendfrom, lineno, queueindex, sentlines, priq, wire, ncorrupt, ntx, piped, m110bad, done, an, pauseX>>
     ELSE IF resendfrom < lineno /\ resendfrom > -1
       THEN /\ TxA(resendfrom, sentlines[resendfrom], FALSE, FALSE)
            /\ resendfrom' = resendfrom + 1 /\ clear' = FALSE
            /\ UNCHANGED <<printing, paused, lineno, queueindex, sentlines, priq, done, pauseX>>
     ELSE IF priq # <<>>
       THEN /\ Tx(PRI, Head(priq), FALSE) /\ priq' = Tail(priq)
            /\ resendfrom' = -1 /\ clear' = FALSE
            /\ UNCHANGED <<printing, paused, lineno, queueindex, sentlines, done, pauseX>>
     ELSE IF queueindex < NLines /\ IsHost(job, queueindex)
       THEN \* process_host_command(";@pause") -> pause() from the print thread; the entry is stepped over, clear := TRUE
            /\ printing' = FALSE /\ paused' = TRUE /\ queueindex' = queueindex + 1 /\ clear' = TRUE /\ resendfrom' = -1
            /\ sentlines' = IF PauseClearsSentlines THEN ClearedLines ELSE sentlines
            /\ pauseX' = an            \* pause(): self.pauseX = self.analyzer.abs_x
            /\ UNCHANGED <<lineno, priq, wire, ncorrupt, ntx, piped, m110bad, done, an>>
     ELSE IF queueindex < NLines
       THEN /\ Tx(lineno, Cmd(job, queueindex), FALSE)
            /\ sentlines' = [sentlines EXCEPT ![lineno] = Cmd(job, queueindex)]
            /\ lineno' = lineno + 1 /\ queueindex' = queueindex + 1
            /\ resendfrom' = -1 /\ clear' = FALSE
            /\ UNCHANGED <<printing, paused, priq, done, pauseX>>
       ELSE /\ printing' = FALSE /\ clear' = TRUE /\ queueindex' = 0 /\ lineno' = 0 /\ resendfrom' = -1
            /\ done' = done \cup {job}
            /\ Tx(-1, M110, FALSE)
            /\ UNCHANGED <<paused, sentlines, priq, pauseX>>
  /\ UNCHANGED <<job, cancelled, replies, expected, accepted, executed, nokc, npause, ncancel, nresume, resuming, nput, mpos, moved>>
NeverDies == ~dead

\* printcore._sender(): runs whenever no print thread runs (also while paused); does not wait for clear then
SenderThread ==
  /\ job > 0 /\ ~printing /\ priq # <<>>
  /\ Tx(PRI, Head(priq), FALSE) /\ priq' = Tail(priq)
  /\ UNCHANGED <<printing, paused, clear, resendfrom, lineno, queueindex, sentlines, job, cancelled,
                 replies, expected, accepted, executed, nokc, npause, ncancel, nresume, dead, done, resuming, nput, mpos, pauseX, moved>>

Pause ==
  /\ printing /\ npause < MaxPauses /\ ~dead /\ (QuietPause => Quiet)
  /\ printing' = FALSE /\ paused' = TRUE /\ clear' = TRUE /\ npause' = npause + 1
  /\ pauseX' = an                  \* pause(): self.pauseX = self.analyzer.abs_x
  /\ sentlines' = IF PauseClearsSentlines THEN ClearedLines ELSE sentlines
  /\ UNCHANGED <<resendfrom, lineno, queueindex, priq, job, cancelled, wire, replies,
                 expected, accepted, executed, ncorrupt, ntx, nokc, piped, m110bad, ncancel, nresume, dead, done, resuming, nput, an, mpos, moved>>
\* resume(): send_now() of each restore command (the sender thread may transmit them at once), then printing := TRUE
ResumeBegin ==
  /\ paused /\ ~resuming
  /\ resuming' = TRUE /\ nput' = 0 /\ nresume' = nresume + 1
  /\ UNCHANGED <<printing, paused, clear, resendfrom, lineno, queueindex, sentlines, priq, job, cancelled, wire, replies,
                 expected, accepted, executed, ncorrupt, ntx, nokc, piped, m110bad, npause, ncancel, dead, done, an, mpos, pauseX, moved>>
ResumePut ==
  /\ resuming /\ nput < NRestore
  /\ priq' = Append(priq, IF nput + 1 = MoveIdx THEN 200 + pauseX ELSE 100 + nput + 1) /\ nput' = nput + 1
  /\ UNCHANGED <<printing, paused, clear, resendfrom, lineno, queueindex, sentlines, job, cancelled, wire, replies,
                 expected, accepted, executed, ncorrupt, ntx, nokc, piped, m110bad, npause, ncancel, nresume, dead, done, resuming, an, mpos, pauseX, moved>>
ResumeGo ==
  /\ resuming /\ nput = NRestore
  /\ paused' = FALSE /\ printing' = TRUE /\ resuming' = FALSE /\ nput' = 0
  /\ UNCHANGED <<clear, resendfrom, lineno, queueindex, sentlines, priq, job, cancelled, wire, replies,
                 expected, accepted, executed, ncorrupt, ntx, nokc, piped, m110bad, npause, ncancel, nresume, dead, done, an, mpos, pauseX, moved>>
\* cancelprint(): while printing or while paused
Cancel ==
  /\ (printing \/ paused) /\ ~resuming /\ ncancel < MaxCancels /\ ~dead
  /\ printing' = FALSE /\ paused' = FALSE /\ clear' = TRUE /\ cancelled' = TRUE /\ ncancel' = ncancel + 1
  /\ pauseX' = IF printing THEN an ELSE pauseX
  /\ sentlines' = IF PauseClearsSentlines /\ printing THEN ClearedLines ELSE sentlines
  /\ UNCHANGED <<resendfrom, lineno, queueindex, priq, job, wire, replies,
                 expected, accepted, executed, ncorrupt, ntx, nokc, piped, m110bad, npause, nresume, dead, done, resuming, nput, an, mpos, moved>>

Firmware ==
  /\ wire # <<>>
  /\ LET t == Head(wire) IN
     /\ wire' = Tail(wire)
     /\ IF t.n = PRI
          THEN expected' = expected /\ accepted' = accepted /\ executed' = Append(executed, t.cmd)
               /\ replies' = Append(replies, [k |-> "ok", n |-> 0])
               \* the restore move of resume(): the machine goes where the host believes it was
               /\ mpos' = (IF IsMove(t.cmd) THEN t.cmd - 200 ELSE mpos)
               /\ moved' = (moved \/ (IsMove(t.cmd) /\ t.cmd - 200 # mpos))
        ELSE IF ~t.bad /\ t.cmd = M110
          THEN expected' = t.n + 1 /\ accepted' = accepted /\ executed' = executed
               /\ replies' = Append(replies, [k |-> "ok", n |-> 0]) /\ UNCHANGED <<mpos, moved>>
        ELSE IF ~t.bad /\ t.n = expected
          THEN expected' = expected + 1 /\ accepted' = Append(accepted, t.cmd) /\ executed' = executed
               /\ replies' = Append(replies, [k |-> "ok", n |-> 0])
               /\ mpos' = mpos + 1 /\ UNCHANGED moved             \* a job line is a relative move of one step
        ELSE expected' = expected /\ accepted' = accepted /\ executed' = executed
             /\ replies' = replies \o <<[k |-> "resend", n |-> expected], [k |-> "ok", n |-> 0]>>
             /\ UNCHANGED <<mpos, moved>>
  /\ UNCHANGED <<printing, paused, clear, resendfrom, lineno, queueindex, sentlines, priq, job, cancelled,
                 ncorrupt, ntx, nokc, piped, m110bad, npause, ncancel, nresume, dead, done, resuming, nput, an, pauseX>>

Reader ==
  /\ replies # <<>>
  /\ LET r == Head(replies) IN
     /\ replies' = Tail(replies)
     /\ clear' = TRUE
     /\ resendfrom' = IF r.k = "resend" THEN r.n ELSE resendfrom
     /\ nokc' = IF r.k = "ok" THEN nokc + 1 ELSE nokc
  /\ UNCHANGED <<printing, paused, lineno, queueindex, sentlines, priq, job, cancelled, wire, expected, accepted,
                 executed, ncorrupt, ntx, piped, m110bad, npause, ncancel, nresume, dead, done, resuming, nput, an, mpos, pauseX, moved>>

Init ==
  /\ printing = FALSE /\ paused = FALSE /\ clear = TRUE /\ resendfrom = -1 /\ lineno = 0 /\ queueindex = 0
  /\ sentlines = ClearedLines /\ priq = <<>> /\ job = 0 /\ cancelled = FALSE
  /\ wire = <<>> /\ replies = <<>> /\ expected = 1 /\ accepted = <<>> /\ executed = <<>>
  /\ ncorrupt = 0 /\ ntx = 0 /\ nokc = 0 /\ piped = FALSE /\ m110bad = FALSE
  /\ npause = 0 /\ ncancel = 0 /\ nresume = 0 /\ dead = FALSE /\ done = {} /\ resuming = FALSE /\ nput = 0
  /\ an = 0 /\ mpos = 0 /\ pauseX = 0 /\ moved = FALSE

Next == StartPrint \/ SendNext \/ SenderThread \/ Pause \/ ResumeBegin \/ ResumePut \/ ResumeGo \/ Cancel \/ Firmware \/ Reader
Spec == Init /\ [][Next]_vars /\ WF_vars(SendNext) /\ WF_vars(Firmware) /\ WF_vars(Reader) /\ WF_vars(ResumeBegin)
             /\ WF_vars(ResumePut) /\ WF_vars(ResumeGo) /\ WF_vars(StartPrint) /\ WF_vars(SenderThread)

-----------------------------------------------------------------------------
Quiescent == job > 0 /\ ~printing /\ ~paused /\ ~resuming /\ Quiet /\ priq = <<>>
Part(j) == SelectSeq(accepted, LAMBDA c : JobOf(c) = j)
\* jobs do not mix and arrive in the order they were started
JobsInOrder == ~m110bad => \A i, k \in DOMAIN accepted : i < k => JobOf(accepted[i]) <= JobOf(accepted[k])
\* of every job a prefix, without duplicates or gaps
InOrder == ~m110bad => \A j \in 1..NJobs : IsPrefix(Part(j), JobLines(j))
\* a job that ran to its natural end was accepted completely
CompleteModuloFindings == Quiescent => \A j \in done : (Part(j) = JobLines(j) \/ piped \/ m110bad)
\* every restore command queued by resume() is executed exactly once
RestoreDelivered == Quiescent => Len(executed) = NRestore * nresume
\* after cancelprint() nothing of the job is transmitted any more
CancelStops == [][(cancelled /\ cancelled') => \A i \in DOMAIN wire' : i > Len(wire) => wire'[i].n \in {PRI}]_vars
\* resume() brings the machine back to where it was when the print was paused: the restore move does not displace it.
\* FAILS on the code as it is (finding F19): a line that is retransmitted is analysed again, and lines still in flight
\* when pause() is called are counted although the firmware may yet reject them
ResumeReturns == ~moved \/ m110bad     \* modulo finding F13 (a lost line-number reset)
Terminates == <>[](Quiescent \/ dead)
AllJobs == <>(job = NJobs)
=============================================================================
