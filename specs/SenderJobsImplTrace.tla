------------------------- MODULE SenderJobsImplTrace -------------------------
(***************************************************************************)
(* Implementation-level trace validation for the job life cycle: is a      *)
(* recorded execution of the real printcore (startprint, pause, resume,    *)
(* cancelprint, ";@pause", a second startprint; real print / sender /      *)
(* reader threads over a scripted serial port) a behaviour of              *)
(* SenderJobsImpl?  Logged events are matched to the model's own actions   *)
(*    tx      <-> StartPrint / SendNext / SenderThread (number, command,    *)
(*                corruption)                                               *)
(*    rel     <-> Reader          pause  <-> Pause        cancel <-> Cancel *)
(*    resume  <-> ResumeBegin     start  <-> (marks the next StartPrint)    *)
(*    end     <-> the quiescent state                                        *)
(* and what the log does not show is inferred by TLC as silent steps: the   *)
(* firmware, the queueing of resume()'s restore commands, the restart of    *)
(* the print by resume(), and the print thread stepping over ";@pause".     *)
(* The model's invariants (jobs complete / in order / not mixed, restore    *)
(* commands executed, print thread alive) are evaluated on every state of   *)
(* the matched behaviour: they speak about the real execution.              *)
(* An unmatched trace is DRIFT between model and code (a NOTE).             *)
(***************************************************************************)
EXTENDS SenderJobsImpl, Json, IOUtils

Traces == JsonDeserialize(IOEnv.TRACE_FILE)
VARIABLES tid, l
tvars == <<vars, tid, l>>

Ev == Traces[tid].ev[l]
More == l <= Len(Traces[tid].ev)
Keep == UNCHANGED tid /\ l' = l + 1
Same == UNCHANGED <<tid, l>>

TInit == Init /\ tid \in 1..Len(Traces) /\ l = 1
TxStep ==
  /\ More /\ Ev.k = "tx"
  /\ (StartPrint \/ SendNext \/ SenderThread)
  /\ Len(wire') = Len(wire) + 1
  \* the restore move of resume() is logged with the position the real analyser held at pause() (command 200 + x): it must
  \* be the model's; for jobs of absolute moves the model's geometry does not apply and any target matches (299)
  /\ LET w == wire'[Len(wire')] IN
       w.n = Ev.n /\ w.bad = Ev.bad /\ (IF Ev.cmd = 299 THEN IsMove(w.cmd) ELSE w.cmd = Ev.cmd)
  /\ Keep
RelStep ==
  /\ More /\ Ev.k = "rel"
  /\ replies # <<>> /\ Head(replies).k = Ev.kind /\ (Ev.kind = "resend" => Head(replies).n = Ev.n)
  /\ Reader /\ Keep
PauseStep  == More /\ Ev.k = "pause" /\ Pause /\ Keep
CancelStep == More /\ Ev.k = "cancel" /\ Cancel /\ Keep
ResumeStep == More /\ Ev.k = "resume" /\ ResumeBegin /\ Keep
StartStep  == More /\ Ev.k = "start" /\ ~printing /\ UNCHANGED vars /\ Keep
\* not logged: inferred
Silent ==
  /\ \/ Firmware \/ ResumePut \/ ResumeGo
     \/ (SendNext /\ wire' = wire)                 \* the ";@pause" entry (or a dying print thread)
  /\ Same
EndStep ==
  /\ More /\ Ev.k = "end"
  /\ Quiescent
  /\ PrintT(<<"A", tid>>)
  /\ UNCHANGED vars /\ Keep
TNext == TxStep \/ RelStep \/ PauseStep \/ CancelStep \/ ResumeStep \/ StartStep \/ Silent \/ EndStep
TSpec == TInit /\ [][TNext]_tvars

\* the invariants of the model, on the states of matched behaviours (a violation names the trace)
T_InOrder     == IF InOrder THEN TRUE ELSE PrintT(<<"I", tid, l, "InOrder">>)
T_JobsInOrder == IF JobsInOrder THEN TRUE ELSE PrintT(<<"I", tid, l, "JobsInOrder">>)
T_Complete    == IF CompleteModuloFindings THEN TRUE ELSE PrintT(<<"I", tid, l, "CompleteModuloFindings">>)
T_Restore     == IF RestoreDelivered THEN TRUE ELSE PrintT(<<"I", tid, l, "RestoreDelivered">>)
T_NeverDies   == IF NeverDies THEN TRUE ELSE PrintT(<<"I", tid, l, "NeverDies">>)
\* only jobs made of relative unit moves have the geometry the model gives them
T_ResumeReturns == IF Traces[tid].rel => ResumeReturns THEN TRUE ELSE PrintT(<<"I", tid, l, "ResumeReturns">>)
=============================================================================
