------------------------- MODULE SenderJobsImplTrace -------------------------
(***************************************************************************)
(* Implementation-level trace validation for the job life cycle: is a      *)
(* recorded execution of the real printcore (startprint, pause, resume,    *)
(* cancelprint, ";@pause", a second startprint; real print / sender /      *)
(* reader threads over a scripted serial port) a behaviour of              *)
(* SenderJobsImpl?  Logged events are matched to the model's own actions   *)
(*    tx      <-> StartPrint / SendNext / SenderThread (number, command,    *)
(*                corruption)                                               *)
(*    rel     <-> Reader          pause  <-> Pause        cancel <-> Cancel *)
(*    resume  <-> ResumeBegin     start  <-> (marks the next StartPrint)    *)
(*    end     <-> the quiescent state                                        *)
(* and what the log does not show is inferred by TLC as silent steps: the   *)
(* firmware, the queueing of resume()'s restore commands, the restart of    *)
(* the print by resume(), and the print thread stepping over ";@pause".     *)
(* The model's invariants (jobs complete / in order / not mixed, restore    *)
(* commands executed, print thread alive) are evaluated on every state of   *)
(* the matched behaviour: they speak about the real execution.              *)
(* An unmatched trace is DRIFT between model and code (a NOTE).             *)
(***************************************************************************)
EXTENDS SenderJobsImpl, Json, IOUtils

Traces == JsonDeserialize(IOEnv.TRACE_FILE)
VARIABLES tid, l
tvars == <<vars, tid, l>>

Ev == Traces[tid].ev[l]
More == l <= Len(Traces[tid].ev)
Keep == UNCHANGED tid /\ l' = l + 1
Same == UNCHANGED <<tid, l>>

TInit == Init /\ tid \in 1..Len(Traces) /\ l = 1
TxStep ==
  /\ More /\ Ev.k = "tx"
  /\ (StartPrint \/ SendNext \/ SenderThread)
  /\ Len(wire') = Len(wire) + 1
  /\ LET w == wire'[Len(wire')] IN w.n = Ev.n /\ w.cmd = Ev.cmd /\ w.bad = Ev.bad
  /\ Keep
RelStep ==
  /\ More /\ Ev.k = "rel"
  /\ replies # <<>> /\ Head(replies).k = Ev.kind /\ (Ev.kind = "resend" => Head(replies).n = Ev.n)
  /\ Reader /\ Keep
PauseStep  == More /\ Ev.k = "pause" /\ Pause /\ Keep
CancelStep == More /\ Ev.k = "cancel" /\ Cancel /\ Keep
ResumeStep == More /\ Ev.k = "resume" /\ ResumeBegin /\ Keep
StartStep  == More /\ Ev.k = "start" /\ ~printing /\ UNCHANGED vars /\ Keep
\* not logged: inferred
Silent ==
  /\ \/ Firmware \/ ResumePut \/ ResumeGo
     \/ (SendNext /\ wire' = wire)                 \* the ";@pause" entry (or a dying print thread)
  /\ Same
EndStep ==
  /\ More /\ Ev.k = "end"
  /\ Quiescent
  /\ PrintT(<<"A", tid>>)
  /\ UNCHANGED vars /\ Keep
TNext == TxStep \/ RelStep \/ PauseStep \/ CancelStep \/ ResumeStep \/ StartStep \/ Silent \/ EndStep
TSpec == TInit /\ [][TNext]_tvars

\* the invariants of the model, on the states of matched behaviours (a violation names the trace)
TInv(P, name) == P \/ PrintT(<<"I", tid, l, name>>)
T_InOrder     == IF InOrder THEN TRUE ELSE PrintT(<<"I", tid, l, "InOrder">>) /\ FALSE
T_JobsInOrder == IF JobsInOrder THEN TRUE ELSE PrintT(<<"I", tid, l, "JobsInOrder">>) /\ FALSE
T_Complete    == IF CompleteModuloFindings THEN TRUE ELSE PrintT(<<"I", tid, l, "CompleteModuloFindings">>) /\ FALSE
T_Restore     == IF RestoreDelivered THEN TRUE ELSE PrintT(<<"I", tid, l, "RestoreDelivered">>) /\ FALSE
T_NeverDies   == IF NeverDies THEN TRUE ELSE PrintT(<<"I", tid, l, "NeverDies">>) /\ FALSE
=============================================================================
