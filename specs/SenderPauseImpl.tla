--------------------------- MODULE SenderPauseImpl ---------------------------
(***************************************************************************)
(* Beyond the listed properties: the sender of SenderImpl extended with     *)
(* printcore.pause() / resume() and the priority queue                       *)
(* (printrun/printcore.py: pause, resume, send_now, the priqueue branch of   *)
(* _sendnext, _sender outside a print).                                      *)
(*   pause()   printing := FALSE, paused := TRUE; the print thread leaves    *)
(*             its loop at the next test (no M110, no counter reset, because *)
(*             `paused` is set)                                              *)
(*   resume()  queues NRestore un-numbered restore commands in priqueue,     *)
(*             printing := TRUE, a new print thread continues at queueindex  *)
(*   a priority command goes out without line number and checksum; the       *)
(*   firmware executes it and answers ok without touching its line counter.  *)
(* While no print thread runs, the sender thread drains priqueue (it does    *)
(* not wait for `clear` when printing is off).                               *)
(* Claim checked: pausing and resuming any number of times (MaxPauses) at    *)
(* any point does not lose, duplicate or reorder job lines -- outside the    *)
(* two recorded findings of the resend logic.                                *)
(***************************************************************************)
EXTENDS Integers, Sequences, FiniteSets, SequencesExt, TLC

CONSTANTS NLines, MaxCorrupt, MaxPauses, NRestore,
          PauseClearsSentlines   \* TRUE: the code before fix F18 (the print thread cleared sentlines when it was only paused)

VARIABLES printing, paused, clear, resendfrom, lineno, queueindex, sentlines, started, priq,
          wire, replies, expected, accepted, executed,
          ncorrupt, ntx, nokc, piped, m110bad, npause,
          dead        \* the print thread died (KeyError on sentlines[resendfrom]) with `printing` still set
vars == <<printing, paused, clear, resendfrom, lineno, queueindex, sentlines, started, priq,
          wire, replies, expected, accepted, executed, ncorrupt, ntx, nokc, piped, m110bad, npause, dead>>

Job == [i \in 1..NLines |-> i]
M110 == 0
PRI  == -2         \* line "number" of an un-numbered priority command

Tx(n, cmd) ==
  \E bad \in BOOLEAN :
     /\ (bad => (ncorrupt < MaxCorrupt /\ n # PRI))          \* corruption of un-numbered lines is not modelled
     /\ wire' = Append(wire, [n |-> n, cmd |-> cmd, bad |-> bad])
     /\ ncorrupt' = IF bad THEN ncorrupt + 1 ELSE ncorrupt
     /\ ntx' = ntx + 1
     /\ piped' = (piped \/ ntx > nokc)
     /\ m110bad' = (m110bad \/ (bad /\ cmd = M110 /\ ntx = 0))

StartPrint ==
  /\ ~started
  /\ started' = TRUE /\ printing' = TRUE /\ clear' = FALSE /\ resendfrom' = -1
  /\ queueindex' = 0 /\ lineno' = 0
  /\ Tx(-1, M110)
  /\ UNCHANGED <<paused, sentlines, priq, replies, expected, accepted, executed, nokc, npause, dead>>

Dies == resendfrom < lineno /\ resendfrom > -1 /\ sentlines[resendfrom] = 0
SendNext ==
  /\ started /\ printing /\ clear /\ ~dead
  /\ dead' = Dies
  /\ IF Dies
       THEN \* KeyError on sentlines[resendfrom]: the thread dies with `printing` still set (deviation PauseClearsSentlines)
            /\ clear' = FALSE
            /\ UNCHANGED <<printing, resendfrom, lineno, queueindex, sentlines, priq, wire, ncorrupt, ntx, piped, m110bad>>
     ELSE IF resendfrom < lineno /\ resendfrom > -1
       THEN /\ Tx(resendfrom, sentlines[resendfrom])
            /\ resendfrom' = resendfrom + 1 /\ clear' = FALSE
            /\ UNCHANGED <<printing, lineno, queueindex, sentlines, priq>>
     ELSE IF priq # <<>>
       THEN /\ Tx(PRI, Head(priq)) /\ priq' = Tail(priq)
            /\ resendfrom' = -1 /\ clear' = FALSE
            /\ UNCHANGED <<printing, lineno, queueindex, sentlines>>
     ELSE IF queueindex < NLines
       THEN /\ Tx(lineno, Job[queueindex + 1])
            /\ sentlines' = [sentlines EXCEPT ![lineno] = Job[queueindex + 1]]
            /\ lineno' = lineno + 1 /\ queueindex' = queueindex + 1
            /\ resendfrom' = -1 /\ clear' = FALSE
            /\ UNCHANGED <<printing, priq>>
       ELSE /\ printing' = FALSE /\ clear' = TRUE /\ queueindex' = 0 /\ lineno' = 0 /\ resendfrom' = -1
            /\ Tx(-1, M110)
            /\ UNCHANGED <<sentlines, priq>>
  /\ UNCHANGED <<paused, started, replies, expected, accepted, executed, nokc, npause>>
NeverDies == ~dead

\* printcore._sender(): only when no print thread runs; does not wait for clear then
SenderThread ==
  /\ started /\ ~printing /\ priq # <<>>
  /\ Tx(PRI, Head(priq)) /\ priq' = Tail(priq)
  /\ UNCHANGED <<printing, paused, clear, resendfrom, lineno, queueindex, sentlines, started,
                 replies, expected, accepted, executed, nokc, npause, dead>>

Pause ==
  /\ printing /\ npause < MaxPauses /\ ~dead
  /\ printing' = FALSE /\ paused' = TRUE /\ clear' = TRUE /\ npause' = npause + 1
  /\ sentlines' = IF PauseClearsSentlines THEN [i \in 0..(NLines - 1) |-> 0] ELSE sentlines
  /\ UNCHANGED <<resendfrom, lineno, queueindex, started, priq, wire, replies,
                 expected, accepted, executed, ncorrupt, ntx, nokc, piped, m110bad, dead>>
Resume ==
  /\ paused
  /\ priq' = priq \o [i \in 1..NRestore |-> 100 + i]
  /\ paused' = FALSE /\ printing' = TRUE
  /\ UNCHANGED <<clear, resendfrom, lineno, queueindex, sentlines, started, wire, replies,
                 expected, accepted, executed, ncorrupt, ntx, nokc, piped, m110bad, npause, dead>>

Firmware ==
  /\ wire # <<>>
  /\ LET t == Head(wire) IN
     /\ wire' = Tail(wire)
     /\ IF t.n = PRI
          THEN expected' = expected /\ accepted' = accepted /\ executed' = Append(executed, t.cmd)
               /\ replies' = Append(replies, [k |-> "ok", n |-> 0])
        ELSE IF ~t.bad /\ t.cmd = M110
          THEN expected' = t.n + 1 /\ accepted' = accepted /\ executed' = executed
               /\ replies' = Append(replies, [k |-> "ok", n |-> 0])
        ELSE IF ~t.bad /\ t.n = expected
          THEN expected' = expected + 1 /\ accepted' = Append(accepted, t.cmd) /\ executed' = executed
               /\ replies' = Append(replies, [k |-> "ok", n |-> 0])
        ELSE expected' = expected /\ accepted' = accepted /\ executed' = executed
             /\ replies' = replies \o <<[k |-> "resend", n |-> expected], [k |-> "ok", n |-> 0]>>
  /\ UNCHANGED <<printing, paused, clear, resendfrom, lineno, queueindex, sentlines, started, priq,
                 ncorrupt, ntx, nokc, piped, m110bad, npause, dead>>

Reader ==
  /\ replies # <<>>
  /\ LET r == Head(replies) IN
     /\ replies' = Tail(replies)
     /\ clear' = TRUE
     /\ resendfrom' = IF r.k = "resend" THEN r.n ELSE resendfrom
     /\ nokc' = IF r.k = "ok" THEN nokc + 1 ELSE nokc
  /\ UNCHANGED <<printing, paused, lineno, queueindex, sentlines, started, priq, wire, expected, accepted,
                 executed, ncorrupt, ntx, piped, m110bad, npause, dead>>

Init ==
  /\ printing = FALSE /\ paused = FALSE /\ clear = TRUE /\ resendfrom = -1 /\ lineno = 0 /\ queueindex = 0
  /\ sentlines = [i \in 0..(NLines - 1) |-> 0] /\ started = FALSE /\ priq = <<>>
  /\ wire = <<>> /\ replies = <<>> /\ expected = 1 /\ accepted = <<>> /\ executed = <<>>
  /\ ncorrupt = 0 /\ ntx = 0 /\ nokc = 0 /\ piped = FALSE /\ m110bad = FALSE /\ npause = 0 /\ dead = FALSE

Next == StartPrint \/ SendNext \/ SenderThread \/ Pause \/ Resume \/ Firmware \/ Reader
Spec == Init /\ [][Next]_vars /\ WF_vars(SendNext) /\ WF_vars(Firmware) /\ WF_vars(Reader) /\ WF_vars(Resume)
             /\ WF_vars(StartPrint) /\ WF_vars(SenderThread)

Quiescent == started /\ ~printing /\ ~paused /\ wire = <<>> /\ replies = <<>> /\ priq = <<>>
CompleteModuloFindings == Quiescent => (accepted = Job \/ piped \/ m110bad)
InOrder == ~m110bad => IsPrefix(accepted, Job)
\* every restore command queued by resume() is executed, in order, exactly once
RestoreDelivered == Quiescent => Len(executed) = NRestore * npause
Terminates == <>Quiescent
=============================================================================
