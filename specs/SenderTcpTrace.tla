--------------------------- MODULE SenderTcpTrace ---------------------------
(***************************************************************************)
(* Beyond the listed properties (C15 speaks of a serial link): the same    *)
(* printcore streaming a job over a TCP connection.  There the transport   *)
(* does the flow control, so by design nothing is numbered or checksummed   *)
(* ("Only add checksums if over serial") and nothing is ever resent; what   *)
(* remains of "every line once, in order" is:                                *)
(*   TCP_Plain     every transmission is a bare command line: a job line    *)
(*                 (comments stripped) or the line-number reset "M110 N-1", *)
(*                 never an N<k> ... *<cs> frame                             *)
(*   TCP_Order     the k-th job transmission is the k-th executable line    *)
(*   TCP_Paced     a line goes out only when every earlier one has been     *)
(*                 acknowledged (ok-paced: tcp_streaming_mode is off);      *)
(*                 judged on jobs without a resume() so far -- the restore  *)
(*                 commands of resume() are queued while nothing is         *)
(*                 printing and go out back to back, by design; not judged  *)
(*                 at all when tcp_streaming_mode is on (record field       *)
(*                 `paced` FALSE): then only order and completeness remain  *)
(*   TCP_Complete  at the end the print thread is gone and all lines went   *)
(*                 out, once                                                 *)
(*   TCP_Restore   un-numbered restore commands of resume() excepted: a     *)
(*                 transmission that is neither a job line in turn nor a    *)
(*                 reset must come after a resume()                          *)
(* Events as in SenderTrace (tx / rel / pause / resume / end / newjob); the *)
(* device acknowledges every line with "ok".  Failures are notes.           *)
(***************************************************************************)
EXTENDS Integers, Sequences, FiniteSets, Json, IOUtils, TLC

Traces == JsonDeserialize(IOEnv.TRACE_FILE)
VARIABLES tid, l, st, cnt
vars == <<tid, l, st, cnt>>
Clauses == {"TCP_Plain", "TCP_Order", "TCP_Paced", "TCP_Complete", "TCP_Restore"}

Reset == <<77, 49, 49, 48, 32, 78, 45, 49, 10>>          \* "M110 N-1\n"
OkLine == <<111, 107, 10>>
NoLF(t) == IF t # <<>> /\ t[Len(t)] = 10 THEN SubSeq(t, 1, Len(t) - 1) ELSE t
Framed(t) == t # <<>> /\ t[1] = 78 /\ \E i \in DOMAIN t : t[i] = 42       \* starts with N and carries a '*'
IsNext(t) == st.k < Len(st.job) /\ NoLF(t) = st.job[st.k + 1]
IsEnd(e) == e.k \in {"end", "newjob"}

St0(T) == [job |-> T.job, k |-> 0, ntx |-> 0, noks |-> 0, resumed |-> FALSE, ever |-> FALSE]

Holds(c, e) ==
  CASE c = "TCP_Plain"    -> e.k = "tx" => (~Framed(e.text) /\ e.text # <<>> /\ e.text[Len(e.text)] = 10)
    [] c = "TCP_Order"    -> (e.k = "tx" /\ e.text # Reset /\ ~st.resumed) => IsNext(e.text)
    [] c = "TCP_Restore"  -> (e.k = "tx" /\ e.text # Reset /\ ~IsNext(e.text)) => st.resumed
    [] c = "TCP_Paced"    -> (e.k = "tx" /\ ~st.ever /\ Traces[tid].paced) => st.ntx <= st.noks
    [] c = "TCP_Complete" -> IsEnd(e) => ((e.k = "newjob" \/ e.joined) /\ st.k = Len(st.job))
Ante(c, e) ==
  CASE c = "TCP_Plain" -> e.k = "tx"
    [] c = "TCP_Paced" -> e.k = "tx" /\ ~st.ever /\ Traces[tid].paced
    [] c = "TCP_Order" -> e.k = "tx" /\ e.text # Reset /\ ~st.resumed
    [] c = "TCP_Restore" -> e.k = "tx" /\ e.text # Reset /\ st.resumed
    [] c = "TCP_Complete" -> IsEnd(e)

NextSt(e) ==
  CASE e.k = "tx" -> [st EXCEPT !.ntx = st.ntx + 1,
                                !.k = IF e.text # Reset /\ IsNext(e.text) THEN st.k + 1 ELSE st.k,
                                \* the restore commands of one resume() end with the first job line that follows them
                                !.resumed = st.resumed /\ ~(e.text # Reset /\ IsNext(e.text))]
    [] e.k = "rel" -> [st EXCEPT !.noks = IF e.text = OkLine THEN st.noks + 1 ELSE st.noks]
    [] e.k = "resume" -> [st EXCEPT !.resumed = TRUE, !.ever = TRUE]
    [] e.k = "newjob" -> [st EXCEPT !.job = e.job, !.k = 0, !.resumed = FALSE, !.ever = FALSE]
    [] OTHER -> st

Init == /\ tid \in 1..Len(Traces) /\ l = 1 /\ st = St0(Traces[tid]) /\ cnt = [c \in Clauses |-> 0]
Step ==
  /\ l <= Len(Traces[tid].ev)
  /\ LET e == Traces[tid].ev[l]
         bad == {c \in Clauses : ~Holds(c, e)}
     IN /\ \A c \in bad : PrintT(<<"F", tid, l, c, "">>)
        /\ st' = NextSt(e)
        /\ cnt' = [c \in Clauses |-> cnt[c] + IF Ante(c, e) THEN 1 ELSE 0]
  /\ l' = l + 1 /\ UNCHANGED tid
Done == /\ l = Len(Traces[tid].ev) + 1 /\ PrintT(<<"D", tid, l - 1, cnt>>) /\ l' = l + 1 /\ UNCHANGED <<tid, st, cnt>>
Spec == Init /\ [][Step \/ Done]_vars
=============================================================================
