----------------------------- MODULE SenderTrace -----------------------------
(***************************************************************************)
(* C15 on recorded executions of the real printcore (real print / reader / *)
(* sender threads) streaming a job over a scripted serial port.            *)
(* Events, ordered under one lock at the OS boundary:                       *)
(*   [k |-> "tx",  text, bad]   bytes the host wrote; bad = the link        *)
(*                              corrupted this transmission                 *)
(*   [k |-> "rel", text]        a reply line handed to the host's reader    *)
(*   [k |-> "end", joined]      print thread terminated, link drained       *)
(*   [k |-> "newjob", job]      the job so far is over (thread terminated,  *)
(*                              link drained) and startprint() is called    *)
(*                              with another job on the same connection     *)
(* The firmware is THIS specification (Marlin-style, as in SenderImpl): it  *)
(* re-derives from the tx events which lines are accepted and which reply   *)
(* lines are owed, so the harness's own bookkeeping is not trusted.         *)
(***************************************************************************)
EXTENDS Integers, Sequences, FiniteSets, SequencesExt, Bitwise, Json, IOUtils, TLC

Traces == JsonDeserialize(IOEnv.TRACE_FILE)
VARIABLES tid, l, fw, cnt
vars == <<tid, l, fw, cnt>>
Clauses == {"C15_Frame", "C15_Text", "C15_First", "C15_Resend", "C15_Complete", "C15_NoDup", "H_Replies"}

\* ---------------------------------------------------------------- byte-level lexing
Digit(b) == b >= 48 /\ b <= 57
IndexOf(s, b) == IF \E i \in DOMAIN s : s[i] = b THEN CHOOSE i \in DOMAIN s : s[i] = b /\ \A j \in DOMAIN s : s[j] = b => i <= j ELSE 0
LastIndexOf(s, b) == IF \E i \in DOMAIN s : s[i] = b THEN CHOOSE i \in DOMAIN s : s[i] = b /\ \A j \in DOMAIN s : s[j] = b => j <= i ELSE 0
IsNat(s) == s # <<>> /\ \A i \in DOMAIN s : Digit(s[i])
NatOf(s) == FoldLeft(LAMBDA acc, b : acc * 10 + (b - 48), 0, s)
IsInt(s) == IF s # <<>> /\ s[1] = 45 THEN IsNat(Tail(s)) ELSE IsNat(s)
IntOf(s) == IF s[1] = 45 THEN 0 - NatOf(Tail(s)) ELSE NatOf(s)
XorAll(s) == FoldLeft(LAMBDA acc, b : acc ^^ b, 0, s)

\* "N<k> <command>*<cs>\n"
Frame(t) ==
  LET star == LastIndexOf(t, 42)
      sp   == IndexOf(t, 32)
      n    == Len(t) IN
  IF n >= 6 /\ t[n] = 10 /\ t[1] = 78 /\ star > 0 /\ sp > 2 /\ sp < star - 1
     /\ IsInt(SubSeq(t, 2, sp - 1)) /\ IsNat(SubSeq(t, star + 1, n - 1))
     /\ Cardinality({i \in DOMAIN t : t[i] = 10}) = 1
    THEN [ok |-> TRUE, n |-> IntOf(SubSeq(t, 2, sp - 1)), cmd |-> SubSeq(t, sp + 1, star - 1),
          cs |-> NatOf(SubSeq(t, star + 1, n - 1)), sum |-> XorAll(SubSeq(t, 1, star - 1))]
    ELSE [ok |-> FALSE, n |-> 0, cmd |-> <<>>, cs |-> 0, sum |-> 1]
M110Bytes == <<77, 49, 49, 48, 32, 78>>          \* "M110 N"
IsM110(cmd) == Len(cmd) > 6 /\ SubSeq(cmd, 1, 6) = M110Bytes /\ IsInt(SubSeq(cmd, 7, Len(cmd)))
OkLine == <<111, 107, 10>>
ResendLine(k) ==   \* "Resend: <k>\n"
  LET digits(x) == IF x < 10 THEN <<48 + x>> ELSE <<48 + (x \div 10), 48 + (x % 10)>> IN
  <<82, 101, 115, 101, 110, 100, 58, 32>> \o digits(k) \o <<10>>

\* ---------------------------------------------------------------- firmware (Marlin-style)
\* an un-numbered line (a priority command, e.g. the restore commands of resume()) is executed and acknowledged
\* without touching the line counter
Unnumbered(t) == t # <<>> /\ t[1] # 78
FwStep(f, t, bad) ==
  LET fr == Frame(t)
      good == ~bad /\ fr.ok /\ fr.cs = fr.sum IN
  IF ~bad /\ Unnumbered(t)
    THEN [f EXCEPT !.owed = Append(f.owed, OkLine), !.executed = Append(f.executed, t)]
  ELSE IF good /\ IsM110(fr.cmd)
    THEN [f EXCEPT !.expected = IntOf(SubSeq(fr.cmd, 7, Len(fr.cmd))) + 1, !.owed = Append(f.owed, OkLine)]
  ELSE IF good /\ fr.n = f.expected
    THEN [f EXCEPT !.expected = f.expected + 1, !.accepted = Append(f.accepted, fr.cmd), !.owed = Append(f.owed, OkLine)]
  ELSE [f EXCEPT !.owed = f.owed \o <<ResendLine(f.expected), OkLine>>,
                 !.rejected = Append(f.rejected, [at |-> f.ntx + 1, want |-> f.expected])]

IsEnd(e) == e.k \in {"end", "newjob"}
Joined(e) == e.k = "newjob" \/ e.joined
Holds(c, T, e) ==
  \* every transmission is a framed, checksummed line -- except un-numbered priority commands, which are never job lines
  CASE c = "C15_Frame" -> e.k = "tx" =>
         \/ (Frame(e.text).ok /\ Frame(e.text).cs = Frame(e.text).sum)
         \/ (Unnumbered(e.text) /\ \A i \in DOMAIN fw.job : fw.job[i] \o <<10>> # e.text)
    \* a job transmission carries exactly the job line its number stands for (comments stripped)
    [] c = "C15_Text"  -> (e.k = "tx" /\ Frame(e.text).ok /\ Frame(e.text).n >= 0) =>
                             (Frame(e.text).n < Len(fw.job) /\ Frame(e.text).cmd = fw.job[Frame(e.text).n + 1])
    \* streaming starts with the line-number reset
    [] c = "C15_First" -> (e.k = "tx" /\ fw.ntxjob = 0) => (Frame(e.text).ok /\ Frame(e.text).n = -1 /\ IsM110(Frame(e.text).cmd))
    \* a resend request is served: the requested line is transmitted again shortly after the rejected one
    [] c = "C15_Resend" ->
         IsEnd(e) =>
            \A i \in DOMAIN fw.rejected :
               LET r == fw.rejected[i] IN
               \* "shortly": among the next four NUMBERED transmissions -- un-numbered priority commands (the restore
               \* commands of a resume() that falls between the rejection and its service) do not count
               (r.want >= 0 /\ r.want < Len(fw.job) /\ \E j \in (r.at + 1)..fw.ntx : fw.ns[j] # -99) =>
                  \E j \in (r.at + 1)..fw.ntx :
                     /\ fw.ns[j] = r.want
                     /\ Cardinality({q \in (r.at + 1)..j : fw.ns[q] # -99}) <= 4
    \* the firmware ends up with every executable line of the job, once, in order
    [] c = "C15_Complete" -> IsEnd(e) => (Joined(e) /\ fw.accepted = fw.job)
    [] c = "C15_NoDup" -> IsEnd(e) => \A i \in DOMAIN fw.accepted : i <= Len(fw.job) /\ fw.accepted[i] = fw.job[i]
    \* harness sanity: the reply lines handed to the host are the firmware's, in order
    [] c = "H_Replies" -> e.k = "rel" => (fw.owed # <<>> /\ e.text = Head(fw.owed))
Ante(c, T, e) ==
  CASE c \in {"C15_Frame", "C15_Text"} -> e.k = "tx"
    [] c = "C15_First" -> e.k = "tx" /\ fw.ntxjob = 0
    [] c = "C15_Resend" -> IsEnd(e) /\ fw.rejected # <<>>
    [] c \in {"C15_Complete", "C15_NoDup"} -> IsEnd(e)
    [] c = "H_Replies" -> e.k = "rel"

\* known findings: signature of the failing trace
SigOf(c, T, e) ==
  IF c \in {"C15_Complete", "C15_NoDup", "C15_Resend"} /\ IsEnd(e) /\ Joined(e) /\ fw.m110bad THEN "M110Corrupted"
  \* running ahead also makes the host end the job before a late resend request reaches it
  ELSE IF c \in {"C15_Complete", "C15_Resend"} /\ IsEnd(e) /\ Joined(e) /\ fw.piped THEN "TransmittedWhileInFlight"
  ELSE ""

NextFw(e) ==
  CASE e.k = "tx" ->
         LET f1 == FwStep(fw, e.text, e.bad) IN
         [f1 EXCEPT !.ntx = fw.ntx + 1,
                    !.ns = Append(fw.ns, IF Frame(e.text).ok THEN Frame(e.text).n ELSE -99),
                    !.ntxjob = fw.ntxjob + 1,
                    !.piped = fw.piped \/ fw.ntx > fw.noks,
                    \* Finding F13 is the OPENING reset of a job lost while the firmware's counter is not where the job needs
                    \* it: the first job of a connection, or a later job whose predecessor's closing reset was lost as well.
                    \* (A later job survives a corrupted opening reset: the closing one of the job before has done its work.)
                    !.m110bad = fw.m110bad \/ (e.bad /\ fw.ntxjob = 0 /\ Frame(e.text).ok /\ IsM110(Frame(e.text).cmd)
                                               /\ (fw.njob = 1 \/ fw.closebad)),
                    !.closebad = IF fw.ntxjob > 0 /\ Frame(e.text).ok /\ IsM110(Frame(e.text).cmd) THEN e.bad ELSE fw.closebad]
    [] e.k = "rel" -> [fw EXCEPT !.owed = IF fw.owed = <<>> THEN <<>> ELSE Tail(fw.owed),
                                 !.noks = IF e.text = OkLine THEN fw.noks + 1 ELSE fw.noks]
    [] e.k = "newjob" -> [fw EXCEPT !.job = e.job, !.njob = fw.njob + 1, !.ntxjob = 0, !.accepted = <<>>, !.rejected = <<>>,
                                     !.piped = FALSE, !.m110bad = FALSE]
    [] OTHER -> fw

Init ==
  /\ tid \in 1..Len(Traces) /\ l = 1
  /\ fw = [expected |-> 1, accepted |-> <<>>, executed |-> <<>>, owed |-> <<>>, rejected |-> <<>>, ntx |-> 0, noks |-> 0, ns |-> <<>>,
           piped |-> FALSE, m110bad |-> FALSE, job |-> Traces[tid].job, njob |-> 1, ntxjob |-> 0, closebad |-> FALSE]
  /\ cnt = [c \in Clauses |-> 0]
Step ==
  /\ l <= Len(Traces[tid].ev)
  /\ LET T == Traces[tid]  e == T.ev[l]
         bad == {c \in Clauses : ~Holds(c, T, e)}
     IN /\ \A c \in bad : PrintT(<<"F", tid, l, c, SigOf(c, T, e)>>)
        /\ fw' = NextFw(e)
        /\ cnt' = [c \in Clauses |-> cnt[c] + IF Ante(c, T, e) THEN 1 ELSE 0]
  /\ l' = l + 1 /\ UNCHANGED tid
Done == /\ l = Len(Traces[tid].ev) + 1 /\ PrintT(<<"D", tid, l - 1, cnt>>) /\ l' = l + 1
        /\ UNCHANGED <<tid, fw, cnt>>
Next == Step \/ Done
Spec == Init /\ [][Next]_vars
=============================================================================
