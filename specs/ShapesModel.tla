----------------------------- MODULE ShapesModel -----------------------------
(***************************************************************************)
(* The discrete case analysis behind C10's sweep clause: start and end on  *)
(* the eight compass points of a circle, either direction, 1..3 turns.     *)
(* ExpectedSweep (Tracer.tla: CORDIC angles + the direction rule) must     *)
(* equal the sweep counted in exact eighths of a turn -- an independent    *)
(* statement of Direction.enforce / full_turn / "turns - 1".                *)
(***************************************************************************)
EXTENDS Tracer, TLC

VARIABLES s, t, ccw, turns
vars == <<s, t, ccw, turns>>
R == 10000
Oct == <<<<10000, 0>>, <<7071, 7071>>, <<0, 10000>>, <<-7071, 7071>>, <<-10000, 0>>, <<-7071, -7071>>, <<0, -10000>>, <<7071, -7071>>>>
Pt(k) == <<Oct[k + 1][1], Oct[k + 1][2], 0>>
Ev == [start |-> Pt(s), target |-> Pt(t), ccw |-> ccw, turns |-> turns]
Eighths == LET d == (t - s + 8) % 8 IN
           (IF ccw THEN (IF d = 0 THEN 8 ELSE d) ELSE (IF d = 0 THEN -8 ELSE d - 8)) + (IF ccw THEN 8 ELSE -8) * (turns - 1)
Init == s \in 0..7 /\ t \in 0..7 /\ ccw \in BOOLEAN /\ turns \in 1..3
Spec == Init /\ [][FALSE]_vars
SweepRule == AbsI(ExpectedSweep(Ev, <<0, 0, 0>>) - (Eighths * TWOPI5) \div 8) <= 12
CordicAccurate == LET a == Atan2(Pt(s)[2], Pt(s)[1])  k == IF s <= 4 THEN s ELSE s - 8 IN AbsI(a - (k * TWOPI5) \div 8) <= 8
=============================================================================
