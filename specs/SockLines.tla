----------------------------- MODULE SockLines -----------------------------
(***************************************************************************)
(* Contract for C17: the lines returned when reading from a network device *)
(* are exactly the received byte stream cut after each newline.             *)
(* A stream is a sequence of bytes (naturals); LF = 10.                      *)
(* A return value is  [k |-> "line", b |-> bytes] | [k |-> "empty"] |       *)
(* [k |-> "eof"]  ("empty" = no data yet, "eof" = peer closed).             *)
(***************************************************************************)
EXTENDS Integers, Sequences, FiniteSets, SequencesExt

LF == 10
IsPrefixOf(s, t) == Len(s) <= Len(t) /\ SubSeq(t, 1, Len(s)) = s
LFCount(s) == Cardinality({i \in DOMAIN s : s[i] = LF})

\* one returned line, given what had been returned before (`sofar`) and the whole stream
\* `closed` : the peer has closed and every byte was handed to the reader
LineOK(stream, sofar, line, closed) ==
  /\ line # <<>>
  /\ IsPrefixOf(sofar \o line, stream)                       \* nothing lost, duplicated or reordered
  /\ LFCount(line) <= 1
  /\ LFCount(line) = 1 => line[Len(line)] = LF                \* cut exactly after the newline
  /\ LFCount(line) = 0 => (closed /\ sofar \o line = stream)  \* an unterminated tail only at end of stream
EofOK(stream, sofar) == sofar = stream                        \* when the reader reports EOF everything was delivered
=============================================================================
