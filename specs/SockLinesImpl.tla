--------------------------- MODULE SockLinesImpl ---------------------------
(***************************************************************************)
(* Implementation-shaped model of printrun/device.py: Device._readline_    *)
(* socket and _readline_buf.  `buf` is Device._read_buffer (a list of       *)
(* chunks); the network side hands out, at each read(256), any non-empty    *)
(* prefix of what is still to come (all fragmentations), or "no data yet"   *)
(* (None; at most MaxAgain times in a behaviour, consecutive allowed), or   *)
(* end of stream once everything was handed out.  selector.select() answers *)
(* TRUE or FALSE nondeterministically.                                       *)
(*                                                                          *)
(* Bytes are their own positions (all distinct) except that positions in    *)
(* `lfs` carry LF, so loss, duplication and reordering are all visible.      *)
(***************************************************************************)
EXTENDS SockLines, TLC

CONSTANTS N, MaxAgain, MaxChunk

VARIABLES lfs,       \* set of positions holding LF (chosen initially: all streams)
          pos,       \* bytes handed to the reader so far
          again,     \* number of "no data yet" results used
          buf,       \* _read_buffer: sequence of chunks
          pc,        \* "idle" | "loop" | "sel" (between the two reads around select())
          out,       \* concatenation of all lines returned so far
          last,      \* last return value
          done       \* READ_EOF was returned
vars == <<lfs, pos, again, buf, pc, out, last, done>>

Byte(i)  == IF i \in lfs THEN LF ELSE 100 + i
Stream   == [i \in 1..N |-> Byte(i)]
Chunk(a, b) == [i \in 1..(b - a + 1) |-> Byte(a + i - 1)]
RECURSIVE Join(_)
Join(cs) == IF cs = <<>> THEN <<>> ELSE Head(cs) \o Join(Tail(cs))
FirstLF(c) == CHOOSE i \in DOMAIN c : c[i] = LF /\ \A j \in DOMAIN c : c[j] = LF => i <= j
HasLF(c) == \E i \in DOMAIN c : c[i] = LF

\* _readline_buf(): looks for LF in the LAST chunk only
BufLine(b) ==
  IF b # <<>> /\ HasLF(b[Len(b)])
    THEN LET c == b[Len(b)]  e == FirstLF(c)
             line == Join(SubSeq(b, 1, Len(b) - 1)) \o SubSeq(c, 1, e)
             rest == IF e < Len(c) THEN <<SubSeq(c, e + 1, Len(c))>> ELSE <<>>
         IN [hit |-> TRUE, line |-> line, buf |-> rest]
    ELSE [hit |-> FALSE, line |-> <<>>, buf |-> b]

Return(v) ==
  /\ last' = v
  /\ out' = IF v.k = "line" THEN out \o v.b ELSE out
  /\ pc' = "idle"

\* readline(): first try the buffer
Call ==
  /\ pc = "idle" /\ ~done
  /\ LET r == BufLine(buf) IN
     IF r.hit THEN Return([k |-> "line", b |-> r.line]) /\ buf' = r.buf
     ELSE pc' = "loop" /\ UNCHANGED <<buf, out, last>>
  /\ UNCHANGED <<lfs, pos, again, done>>

\* chunk = read(256) delivered data
GotChunk(from) ==
  \E n \in 1..MaxChunk :
     /\ pos + n <= N
     /\ pos' = pos + n
     /\ LET b2 == Append(buf, Chunk(pos + 1, pos + n))  r == BufLine(b2) IN
        IF r.hit THEN Return([k |-> "line", b |-> r.line]) /\ buf' = r.buf
        ELSE buf' = b2 /\ pc' = "loop" /\ UNCHANGED <<out, last>>
     /\ UNCHANGED <<lfs, again, done>>

\* chunk = read(256) said "no data yet" (None)
GotAgain(from) ==
  /\ again < MaxAgain
  /\ again' = again + 1
  /\ IF from = "loop"
       THEN \/ pc' = "sel" /\ UNCHANGED <<out, last>>                    \* select() was TRUE: read again
            \/ Return([k |-> "empty", b |-> <<>>])                       \* select() was FALSE
       ELSE Return([k |-> "empty", b |-> <<>>])                          \* second read also None
  /\ UNCHANGED <<lfs, pos, buf, done>>

\* chunk = read(256) said end of stream (b'')
GotEof(from) ==
  /\ pos = N
  /\ LET tail == Join(buf) IN
     IF tail # <<>> THEN Return([k |-> "line", b |-> tail]) /\ buf' = <<>> /\ UNCHANGED done
     ELSE Return([k |-> "eof", b |-> <<>>]) /\ done' = TRUE /\ UNCHANGED buf
  /\ UNCHANGED <<lfs, pos, again>>

Loop == pc = "loop" /\ (GotChunk("loop") \/ GotAgain("loop") \/ GotEof("loop"))
Sel  == pc = "sel"  /\ (GotChunk("sel") \/ GotAgain("sel") \/ GotEof("sel"))

Init ==
  /\ lfs \in SUBSET (1..N)
  /\ pos = 0 /\ again = 0 /\ buf = <<>> /\ pc = "idle" /\ out = <<>> /\ done = FALSE
  /\ last = [k |-> "none", b |-> <<>>]
Next == Call \/ Loop \/ Sel
Spec == Init /\ [][Next]_vars

-----------------------------------------------------------------------------
\* C17 on the model
Closed == pos = N
Returned == pc' = "idle" /\ (pc # "idle" \/ BufLine(buf).hit)
LinesOK == [][Returned =>
               CASE last'.k = "line" -> LineOK(Stream, out, last'.b, Closed)
                 [] last'.k = "eof"  -> EofOK(Stream, out)
                 [] OTHER -> TRUE]_vars
\* representation invariant of _read_buffer: only the last chunk can contain LF
BufInv == \A i \in 1..(Len(buf) - 1) : ~HasLF(buf[i])
\* nothing is ever lost: returned + buffered = received
Conservation == out \o Join(buf) = SubSeq(Stream, 1, pos)
\* when EOF was reported everything had been delivered
DoneComplete == done => out = Stream
=============================================================================
