--------------------------- MODULE SockLinesTrace ---------------------------
(***************************************************************************)
(* C17 on recorded executions of the real Device.readline() (socket type)  *)
(* driven by a scripted socket file.  A trace: stream (all bytes the peer  *)
(* sends), ev = the sequence of return values with the bookkeeping of the  *)
(* scripted peer (closed: end of stream was signalled or every byte handed *)
(* out and EOF pending).                                                    *)
(***************************************************************************)
EXTENDS SockLines, Json, IOUtils, TLC

Traces == JsonDeserialize(IOEnv.TRACE_FILE)
VARIABLES tid, l, sofar, cnt
vars == <<tid, l, sofar, cnt>>
Clauses == {"C17_Line", "C17_Eof", "C17_Terminates", "C17_AfterEof"}

Holds(c, T, e) ==
  CASE c = "C17_Line" -> e.k = "line" => LineOK(T.stream, sofar, e.b, e.closed)
    [] c = "C17_Eof"  -> e.k = "eof" => EofOK(T.stream, sofar)
    \* the driver keeps calling until EOF (bounded); the last return must be EOF
    [] c = "C17_Terminates" -> l = Len(T.ev) => e.k = "eof"
    \* nothing but EOF comes after EOF
    [] c = "C17_AfterEof" -> (l > 1 /\ T.ev[l - 1].k = "eof") => e.k = "eof"
Ante(c, T, e) ==
  CASE c = "C17_Line" -> e.k = "line"
    [] c = "C17_Eof" -> e.k = "eof"
    [] c = "C17_Terminates" -> l = Len(T.ev)
    [] c = "C17_AfterEof" -> l > 1 /\ T.ev[l - 1].k = "eof"

Init == tid \in 1..Len(Traces) /\ l = 1 /\ sofar = <<>> /\ cnt = [c \in Clauses |-> 0]
Step ==
  /\ l <= Len(Traces[tid].ev)
  /\ LET T == Traces[tid]  e == T.ev[l]
         bad == {c \in Clauses : ~Holds(c, T, e)}
     IN /\ \A c \in bad : PrintT(<<"F", tid, l, c, "">>)
        /\ sofar' = IF e.k = "line" THEN sofar \o e.b ELSE sofar
        /\ cnt' = [c \in Clauses |-> cnt[c] + IF Ante(c, T, e) THEN 1 ELSE 0]
  /\ l' = l + 1 /\ UNCHANGED tid
Done == /\ l = Len(Traces[tid].ev) + 1 /\ PrintT(<<"D", tid, l - 1, cnt>>) /\ l' = l + 1
        /\ UNCHANGED <<tid, sofar, cnt>>
Next == Step \/ Done
Spec == Init /\ [][Next]_vars
=============================================================================
