----------------------------- MODULE StartupImpl -----------------------------
(***************************************************************************)
(* The empty start-up print with which PrintrunWriter.connect() arms        *)
(* printcore (finding F24).  printcore paces itself with the flag `clear`   *)
(* ("clear to send"): it is lowered when a line goes out and raised when    *)
(* the device answers.                                                      *)
(*   startprint()   printing := TRUE; clear := FALSE; the line-number reset *)
(*                  "M110 N-1" goes out -- unless the device has switched   *)
(*                  line numbers off (a Grbl greeting), then NOTHING goes   *)
(*                  out                                                     *)
(*   print thread   waits for clear, then takes the next line; the queue is *)
(*                  empty, so the print ends: printing := FALSE, the        *)
(*                  closing reset goes out (again only with line numbers)   *)
(*   device         acknowledges every line it receives                     *)
(*   connect()      returns once nothing is printing and clear is raised    *)
(* Named deviation StartAlwaysWaits = the code before fix F24: clear is      *)
(* lowered whether or not a reset was sent.  TLC shows that connect() then   *)
(* never returns for a device without line numbers (Returns is violated),    *)
(* and that it returns in the three other combinations.                      *)
(***************************************************************************)
EXTENDS Integers

CONSTANTS LineNumbers,        \* BOOLEAN: the device takes N<k> ... *<cs> frames (Marlin) or not (Grbl)
          StartAlwaysWaits    \* BOOLEAN: see above

VARIABLES clear, printing, started, inflight, thread, returned
vars == <<clear, printing, started, inflight, thread, returned>>

Init == clear = TRUE /\ printing = FALSE /\ started = FALSE /\ inflight = 0 /\ thread = "none" /\ returned = FALSE

StartPrint ==
  /\ ~started /\ started' = TRUE /\ printing' = TRUE /\ thread' = "running"
  /\ clear' = IF LineNumbers \/ StartAlwaysWaits THEN FALSE ELSE clear
  /\ inflight' = IF LineNumbers THEN inflight + 1 ELSE inflight
  /\ UNCHANGED returned
\* _sendnext(): wait for clear; nothing is queued, so the print ends and the closing reset is sent
ThreadEnds ==
  /\ thread = "running" /\ printing /\ clear
  /\ printing' = FALSE /\ thread' = "none"
  /\ clear' = IF LineNumbers THEN FALSE ELSE TRUE
  /\ inflight' = IF LineNumbers THEN inflight + 1 ELSE inflight
  /\ UNCHANGED <<started, returned>>
DeviceAcks ==
  /\ inflight > 0 /\ inflight' = inflight - 1 /\ clear' = TRUE
  /\ UNCHANGED <<printing, started, thread, returned>>
\* _wait_for_pending_operations(): not printing and clear
ConnectReturns ==
  /\ started /\ ~returned /\ ~printing /\ clear
  /\ returned' = TRUE /\ UNCHANGED <<clear, printing, started, inflight, thread>>

Next == StartPrint \/ ThreadEnds \/ DeviceAcks \/ ConnectReturns
Spec == Init /\ [][Next]_vars /\ WF_vars(Next)

Returns == <>returned
NothingOwedWhenStuck == [](~clear => (inflight > 0 \/ ~started \/ StartAlwaysWaits))
=============================================================================
