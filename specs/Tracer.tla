------------------------------- MODULE Tracer -------------------------------
(***************************************************************************)
(* Contracts for interpolated paths (C10, C11, C12).  A path is the        *)
(* sequence of machine positions obtained by running the independent       *)
(* interpreter (Machine!ExecLine) over the G1 lines a tracer call emitted, *)
(* starting from the known start position.  Requests are carried in trace  *)
(* units (10^-2 mm): start, target, centre (absolute), radius, turns,      *)
(* direction (ccw), resolution, control points.                             *)
(***************************************************************************)
EXTENDS Machine, FixedPoint

\* positions after each line (v[1] is the start itself)
Path(start, rel, lines) ==
  LET m0 == [InitMachine EXCEPT !.pos = [X |-> start[1], Y |-> start[2], Z |-> start[3]],
                                !.known = [a \in AxisSet |-> TRUE], !.rel = rel]
      step(acc, ln) == LET m2 == ExecLine(acc.m, ln.ws) IN
                       [m |-> m2, v |-> Append(acc.v, <<m2.pos["X"], m2.pos["Y"], m2.pos["Z"]>>)]
  IN FoldLeft(step, [m |-> m0, v |-> <<start>>], lines).v
OnlyMoves(lines) == \A i \in DOMAIN lines : GC(lines[i].ws) = 10
\* a toolpath of plain and absolute-bypass moves and mode context managers (C11): mode lines are executed, only motion
\* lines contribute a vertex
MotionPath(start, rel, lines) ==
  LET m0 == [InitMachine EXCEPT !.pos = [X |-> start[1], Y |-> start[2], Z |-> start[3]],
                                !.known = [a \in AxisSet |-> TRUE], !.rel = rel]
      step(acc, ln) == LET m2 == ExecLine(acc.m, ln.ws) IN
                       [m |-> m2, v |-> IF GC(ln.ws) \in {0, 10} THEN Append(acc.v, <<m2.pos["X"], m2.pos["Y"], m2.pos["Z"]>>) ELSE acc.v]
  IN FoldLeft(step, [m |-> m0, v |-> <<start>>], lines).v
MovesAndModes(lines) == \A i \in DOMAIN lines : GC(lines[i].ws) \in {0, 10, 900, 910}

Circular == {"arc", "arc_radius", "circle", "thread"}
Angular  == Circular \cup {"helix", "spiral"}
Near3(p, q, tol) == AbsI(p[1] - q[1]) <= tol /\ AbsI(p[2] - q[2]) <= tol /\ AbsI(p[3] - q[3]) <= tol

\* --------------------------------------------------------------------------- C10
\* ends on the requested target; starts one sample away from the start
C10_End(e, V, slack)   == Near3(Last(V), e.target, slack)
C10_Start(e, V)        == Len(V) >= 2 /\ Dist3sq(V[1], V[2]) <= (e.res + 3) * (e.res + 3)

\* constant radius about the centre (arc, circle, thread; arc_radius: about one of the two centres at |radius| from both ends)
RadOK(v, c, r, eps) == AbsI(Dist2(v, c) - r * r) <= 2 * r * eps + eps * eps
C10_Radius(e, V) ==
  e.shape \in Circular =>
     \E c \in e.centers : \A i \in DOMAIN V : RadOK(V[i], c, e.r, 3)

\* expected sweep in 10^-5 rad: an independent statement of Direction.enforce / full_turn
ExpectedSweep(e, c) ==
  LET a0 == Atan2(e.start[2] - c[2], e.start[1] - c[1])
      a1 == Atan2(e.target[2] - c[2], e.target[1] - c[1])
      d  == a1 - a0
      same == e.start[1] = e.target[1] /\ e.start[2] = e.target[2]
      base == IF same THEN (IF e.ccw THEN TWOPI5 ELSE -TWOPI5)
              ELSE IF e.ccw THEN (IF d <= 0 THEN d + TWOPI5 ELSE d) ELSE (IF d >= 0 THEN d - TWOPI5 ELSE d)
  IN base + (IF e.ccw THEN TWOPI5 ELSE -TWOPI5) * (e.turns - 1)
\* observed sweep: sum of the step angles about c.  On shapes whose radius varies (helix, spiral) vertices closer than 2
\* resolutions to c are skipped: their angle is ill-defined.  `res` = 0 switches the skipping off (constant-radius shapes,
\* whose radius is checked by RadOK anyway -- needed for loops smaller than the resolution, seed C10j).
Steps(V, c, res) ==
  [i \in 1..(Len(V) - 1) |->
     IF Dist2(V[i], c) >= 4 * res * res /\ Dist2(V[i + 1], c) >= 4 * res * res /\ Dist2(V[i], c) > 0 /\ Dist2(V[i + 1], c) > 0
       THEN StepAngle(c, V[i], V[i + 1]) ELSE 0]
SkipRes(e) == IF e.shape \in Circular THEN 0 ELSE e.res
SumSeq(s) == FoldLeft(LAMBDA a, b : a + b, 0, s)
\* tolerance: CORDIC + rounding of every vertex + the cubic error of asin ~ x
SweepTol(e, V, c) == 3000 + 4 * Len(V) + AbsI(ExpectedSweep(e, c)) \div 50
\* a full turn passes the far side of its circle: some vertex is at least r * sqrt(2) away from the start.  Judged on every
\* circle, also on loops so small that they have three or four vertices and steps of 140 degrees, where the angle sums
\* below (built for small steps) say nothing (seed C10j: such a loop collapsed to a step out and back)
FarSide(e, V) == e.shape = "circle" => \E i \in DOMAIN V : Dist2(V[i], V[1]) + 8 * e.r + 16 >= 2 * e.r * e.r
C10_Sweep(e, V) ==
  /\ FarSide(e, V)
  /\ (e.shape \in Angular /\ e.far) =>
     \E c \in e.centers :
        /\ (e.shape \in Circular => \A i \in DOMAIN V : RadOK(V[i], c, e.r, 3))
        /\ AbsI(SumSeq(Steps(V, c, SkipRes(e))) - ExpectedSweep(e, c)) <= SweepTol(e, V, c)
        \* arc_radius: a positive radius selects the minor arc, a negative one the major arc
        /\ e.minor = "minor" => AbsI(SumSeq(Steps(V, c, SkipRes(e)))) <= PI5 + SweepTol(e, V, c)
        /\ e.minor = "major" => AbsI(SumSeq(Steps(V, c, SkipRes(e)))) >= PI5 - SweepTol(e, V, c)
\* advances monotonically in the selected direction
C10_Direction(e, V) ==
  (e.shape \in Angular /\ e.far) =>
     \E c \in e.centers :
        \A i \in 1..(Len(V) - 1) :
           LET x == Cross(c, V[i], V[i + 1])
               slackx == 2 * (ISqrt(Dist2(V[i], c)) + ISqrt(Dist2(V[i + 1], c))) + 4 IN
           IF e.ccw THEN x >= -slackx ELSE x <= slackx
\* Z linear in the angle; radius linear in the angle (helix, spiral)
PartialSums(s) == FoldLeft(LAMBDA acc, b : Append(acc, Last(acc) + b), <<0>>, s)
C10_Linear(e, V) ==
  (e.shape \in Angular /\ e.far) =>
     \E c \in e.centers :
        LET th == PartialSums(Steps(V, c, SkipRes(e)))       \* th[i] = angle reached at V[i], 10^-5 rad
            Th == Last(th) \div 100                           \* 10^-3 rad
            H  == Last(V)[3] - V[1][3]
            R0 == ISqrt(Dist2(V[1], c))
            DR == ISqrt(Dist2(Last(V), c)) - R0 IN
        \A i \in DOMAIN V :
           /\ AbsI((V[i][3] - V[1][3]) * Th - H * (th[i] \div 100)) <= 3 * AbsI(Th) + 40 * AbsI(H) + 50
           /\ (e.shape \in {"helix", "spiral"}) =>
                 AbsI((ISqrt(Dist2(V[i], c)) - R0) * Th - DR * (th[i] \div 100)) <= 4 * AbsI(Th) + 40 * AbsI(DR) + 50
\* splines pass within one resolution of every control point, in order
RECURSIVE Visit(_, _, _, _)
Visit(V, ctrls, from, tol2) ==
  IF ctrls = <<>> THEN TRUE
  ELSE LET hits == {i \in from..Len(V) : Dist3sq(V[i], Head(ctrls)) <= tol2} IN
       hits # {} /\ Visit(V, Tail(ctrls), CHOOSE i \in hits : \A j \in hits : i <= j, tol2)
C10_Controls(e, V) ==
  e.shape = "spline" => Visit(V, e.controls, 1, (e.res + 3) * (e.res + 3))
\* polylines visit exactly the given points
C10_Points(e, V) ==
  e.shape \in {"polyline", "mixed"} => (Len(V) = Len(e.controls) + 1 /\ \A i \in DOMAIN e.controls : Near3(V[i + 1], e.controls[i], 1))

\* --------------------------------------------------------------------------- C11
\* the same logical toolpath in relative and absolute mode: vertex by vertex, up to one rounding per relative move
C11_Same(VA, VR) ==
  /\ Len(VA) = Len(VR)
  /\ \A i \in DOMAIN VA : \A k \in 1..3 : 2 * AbsI(VA[i][k] - VR[i][k]) <= i + 1

\* --------------------------------------------------------------------------- C12
ConstSpeed == {"arc", "arc_radius", "circle"}
\* ... and a helix whose end radius is its start radius (recorder flag `cr`): "constant-radius helix" in the property text
IsConst(e) == e.shape \in ConstSpeed \/ (e.shape = "helix" /\ e.cr)
Seg2(V, i) == Dist3sq(V[i], V[i + 1])
\* no segment longer than about one resolution; interior segments at least about 0.9 resolutions
\* (the bound is divided instead of the segment multiplied: a far too long segment must be a verdict, not an overflow)
C12_Long(e, V)  == IsConst(e) => \A i \in 1..(Len(V) - 1) : Seg2(V, i) <= ((105 * e.res + 300) * (105 * e.res + 300)) \div 10000 + 1
C12_Short(e, V) == (IsConst(e) /\ e.r >= e.res) =>
                      \A i \in 2..(Len(V) - 2) : Seg2(V, i) + 1 >= ((85 * e.res - 300) * (85 * e.res - 300)) \div 10000
\* segment count proportional to path length / resolution (1/1.11 .. 1/0.85, two end segments allowed)
C12_Count(e, V) == (IsConst(e) /\ e.r >= e.res /\ e.len >= 3 * e.res) =>
                      /\ (Len(V) - 1) * e.res * 85 <= (e.len + 2 * e.res) * 100 + 200 * e.res
                      /\ (Len(V) - 1) * e.res * 111 >= (e.len - 2 * e.res) * 100 - 200 * e.res
\* halving the resolution never yields fewer segments
C12_Halving(VA, VH) == Len(VH) >= Len(VA)
\* chord error: the midpoint of every segment stays within the sagitta implied by its length (constant-radius shapes)
C12_Chord(e, V) ==
  (e.shape \in ConstSpeed /\ e.r >= 2 * e.res) =>
     \E c \in e.centers :
        \A i \in 1..(Len(V) - 1) :
           LET mx == (V[i][1] + V[i + 1][1]) \div 2  my == (V[i][2] + V[i + 1][2]) \div 2
               dm == ISqrt((mx - c[1]) * (mx - c[1]) + (my - c[2]) * (my - c[2]))
               sag == (Seg2(V, i) \div (8 * e.r)) + 3 IN          \* s^2 / 8r
           e.r - dm <= sag /\ dm - e.r <= 3
=============================================================================
