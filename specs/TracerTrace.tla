----------------------------- MODULE TracerTrace -----------------------------
(***************************************************************************)
(* C10, C11, C12 on recorded executions of the real PathTracer: every      *)
(* event is one geometrically valid request executed three times from the  *)
(* same start position -- in absolute mode (linesA), in relative mode with *)
(* the request expressed as offsets (linesR), and in absolute mode at half *)
(* the resolution (linesH).  The vertices are produced here, by running    *)
(* the interpreter over the emitted lines.                                  *)
(***************************************************************************)
EXTENDS Tracer, Json, IOUtils, TLC

Traces == JsonDeserialize(IOEnv.TRACE_FILE)
VARIABLES tid, l, cnt
vars == <<tid, l, cnt>>
Clauses == {"C10_Valid", "C10_End", "C10_EndRel", "C10_Start", "C10_Radius", "C10_Sweep", "C10_Direction", "C10_Linear",
            "C10_Controls", "C10_Points", "C11_Same", "C12_Long", "C12_Short", "C12_Count", "C12_Halving", "C12_Chord", "C12_Units"}

E(e) == [e EXCEPT !.centers = {e.centers[i] : i \in DOMAIN e.centers}]
LinesOK(e, ls) == ls # <<>> /\ (IF e.shape = "mixed" THEN MovesAndModes(ls) ELSE OnlyMoves(ls))
OkA(e) == e.outA = "ok" /\ LinesOK(e, e.linesA)
OkR(e) == e.outR = "ok" /\ LinesOK(e, e.linesR)
OkH(e) == e.outH = "ok" /\ LinesOK(e, e.linesH)
PathOf(e, rel, ls) == IF e.shape = "mixed" THEN MotionPath(e.start, rel, ls) ELSE Path(e.start, rel, ls)

Holds(c, e0) ==
  LET e  == E(e0)
      VA == PathOf(e, FALSE, e.linesA)
      VR == PathOf(e, TRUE, e.linesR)
      VH == PathOf(e, FALSE, e.linesH) IN
  CASE c = "C10_Valid"     -> e.shape = "units" \/ e.invalid \/ (OkA(e) /\ (e.onlyA \/ (OkR(e) /\ OkH(e))))            \* a valid request is carried out, in both modes
    [] c = "C10_End"       -> OkA(e) => C10_End(e, VA, 1)
    [] c = "C10_EndRel"    -> OkR(e) => C10_End(e, VR, (Len(VR) + 3) \div 2)
    [] c = "C10_Start"     -> (OkA(e) /\ e.shape \notin {"polyline", "parametric", "mixed"}) => C10_Start(e, VA)   \* a user curve may start elsewhere
    [] c = "C10_Radius"    -> OkA(e) => C10_Radius(e, VA)
    [] c = "C10_Sweep"     -> OkA(e) => C10_Sweep(e, VA)
    [] c = "C10_Direction" -> OkA(e) => C10_Direction(e, VA)
    [] c = "C10_Linear"    -> OkA(e) => C10_Linear(e, VA)
    [] c = "C10_Controls"  -> OkA(e) => C10_Controls(e, VA)
    [] c = "C10_Points"    -> OkA(e) => C10_Points(e, VA)
    [] c = "C11_Same"      -> (OkA(e) /\ OkR(e)) => C11_Same(VA, VR)
    [] c = "C12_Long"      -> OkA(e) => (C12_Long(e, VA) /\ (OkH(e) => C12_Long([e EXCEPT !.res = e.res \div 2], VH)))
    [] c = "C12_Short"     -> OkA(e) => C12_Short(e, VA)
    [] c = "C12_Count"     -> OkA(e) => C12_Count(e, VA)
    [] c = "C12_Halving"   -> (OkA(e) /\ OkH(e)) => C12_Halving(VA, VH)
    [] c = "C12_Chord"     -> OkA(e) => C12_Chord(e, VA)
    \* a units switch rescales the resolution: the same physical length before and after
    \* (e.r / e.len: resolution before / after in 10^-6 of the respective unit; e.turns / e.res: tenths of a mm per unit)
    [] c = "C12_Units"     -> e.shape = "units" => AbsI((e.len \div 10) * e.res - (e.r \div 10) * e.turns) <= e.res + e.turns
Ante(c, e) ==
  CASE c \in {"C10_Radius"} -> e.shape \in Circular
    [] c \in {"C10_Sweep", "C10_Direction", "C10_Linear"} -> e.shape \in Angular /\ e.far
    [] c = "C10_Controls" -> e.shape = "spline"
    [] c = "C10_Points" -> e.shape \in {"polyline", "mixed"}
    [] c \in {"C12_Long", "C12_Short", "C12_Count"} -> IsConst(e)
    [] c = "C12_Chord" -> e.shape \in ConstSpeed
    [] c = "C12_Units" -> e.shape = "units"
    [] OTHER -> TRUE

Init == tid \in 1..Len(Traces) /\ l = 1 /\ cnt = [c \in Clauses |-> 0]
Step ==
  /\ l <= Len(Traces[tid].ev)
  /\ LET e == Traces[tid].ev[l]
         bad == {c \in Clauses : ~Holds(c, e)}
     IN /\ \A c \in bad : PrintT(<<"F", tid, l, c, "">>)
        /\ cnt' = [c \in Clauses |-> cnt[c] + IF Ante(c, e) THEN 1 ELSE 0]
  /\ l' = l + 1 /\ UNCHANGED tid
Done == /\ l = Len(Traces[tid].ev) + 1 /\ PrintT(<<"D", tid, l - 1, cnt>>) /\ l' = l + 1 /\ UNCHANGED <<tid, cnt>>
Next == Step \/ Done
Spec == Init /\ [][Next]_vars
=============================================================================
