----------------------------- MODULE Transform -----------------------------
(***************************************************************************)
(* Affine maps on the integer sub-group and the contract of the transform  *)
(* state machine (properties C13 and C04).                                  *)
(*                                                                          *)
(* A map is a 3x4 integer matrix m (rows 1..3, columns 1..4, column 4 the  *)
(* translation in trace units).  Generators are what the public API can    *)
(* chain: translate, rotate by quarter turns about x/y/z, scale by non-zero *)
(* integers, mirror / reflect across axis-aligned planes.                   *)
(***************************************************************************)
EXTENDS Integers, Sequences, FiniteSets

Id4 == <<<<1, 0, 0, 0>>, <<0, 1, 0, 0>>, <<0, 0, 1, 0>>>>

ApplyM(m, p) == [i \in 1..3 |-> m[i][1] * p[1] + m[i][2] * p[2] + m[i][3] * p[3] + m[i][4]]
\* linear image of a displacement
ApplyL(m, d) == [i \in 1..3 |-> m[i][1] * d[1] + m[i][2] * d[2] + m[i][3] * d[3]]
\* g after m
Compose(g, m) ==
  [i \in 1..3 |-> [j \in 1..4 |->
      g[i][1] * m[1][j] + g[i][2] * m[2][j] + g[i][3] * m[3][j] + (IF j = 4 THEN g[i][4] ELSE 0)]]
\* ToPivot o g o FromPivot
Conj(g, P) ==
  [i \in 1..3 |-> [j \in 1..4 |->
      IF j < 4 THEN g[i][j]
      ELSE g[i][4] + P[i] - (g[i][1] * P[1] + g[i][2] * P[2] + g[i][3] * P[3])]]

Translate(d) == <<<<1, 0, 0, d[1]>>, <<0, 1, 0, d[2]>>, <<0, 0, 1, d[3]>>>>
Scale(s)     == <<<<s[1], 0, 0, 0>>, <<0, s[2], 0, 0>>, <<0, 0, s[3], 0>>>>
\* right-handed quarter turns (what scipy's Rotation.from_rotvec gives)
RotQ(axis) ==
  CASE axis = "z" -> <<<<0, -1, 0, 0>>, <<1, 0, 0, 0>>, <<0, 0, 1, 0>>>>
    [] axis = "x" -> <<<<1, 0, 0, 0>>, <<0, 0, -1, 0>>, <<0, 1, 0, 0>>>>
    [] axis = "y" -> <<<<0, 0, 1, 0>>, <<0, 1, 0, 0>>, <<-1, 0, 0, 0>>>>
RECURSIVE Rot(_, _)
Rot(axis, k) == IF k = 0 THEN Id4 ELSE Compose(RotQ(axis), Rot(axis, k - 1))
\* reflection across the plane with axis-aligned normal n (1 = x, 2 = y, 3 = z)
ReflectN(n) == Scale([i \in 1..3 |-> IF i = n THEN -1 ELSE 1])
MirrorPlane(plane) == CASE plane = "xy" -> ReflectN(3) [] plane = "yz" -> ReflectN(1) [] plane = "zx" -> ReflectN(2)

\* The generator denoted by a recorded / modelled call (args are small integers)
GenOf(call, a) ==
  CASE call = "translate" -> Translate(a.v)
    [] call = "rotate"    -> Rot(a.axis, a.k)
    [] call = "scale"     -> Scale(a.v)
    [] call = "mirror"    -> MirrorPlane(a.plane)
    [] call = "reflect"   -> ReflectN(a.n)
ChainCalls    == {"translate", "rotate", "scale", "mirror", "reflect"}
PivotedCalls  == {"rotate", "scale"}   \* "rotations and scalings leave the pivot point fixed"

\* Transform._chain_matrix:  to_pivot @ g @ from_pivot @ current
Chained(cur, g) == [m |-> Compose(Conj(g, cur.pivot), cur.m), pivot |-> cur.pivot]

IdState == [m |-> Id4, pivot |-> <<0, 0, 0>>]

(* Lemma checked by TLC over all generators and pivots: a pivoted generator *)
(* leaves the pivot fixed.                                                   *)
PivotFixed(g, P) == ApplyM(Conj(g, P), P) = P
=============================================================================
