--------------------------- MODULE TransformImpl ---------------------------
(***************************************************************************)
(* Implementation-shaped model of geometry/transformer.py + transform.py   *)
(* and of GCodeCore.current_transform() / named_transform():                *)
(* the current Transform object, the stack of deep copies, the dictionary   *)
(* of named states and the state copies held by open context managers.      *)
(*                                                                          *)
(* Python object identity matters here: restore_state(name) used to install *)
(* the *same object* that sits in the dictionary, so that chaining a        *)
(* transform afterwards changed the named state too (finding F9).  The      *)
(* constant AliasOnNamedRestore = TRUE reproduces that behaviour (`alias`   *)
(* names the dictionary entry the current object is shared with); FALSE is  *)
(* the repaired code (restore copies).                                       *)
(***************************************************************************)
EXTENDS Transform, TLC

CONSTANTS Gens,       \* set of [call, a] records: the generators that may be chained
          Pivots,     \* pivot points
          Names,      \* names for named states
          MaxStack, MaxCtx, MaxChain,
          AliasOnNamedRestore

VARIABLES cur, alias, stack, named, ctx, nchain, last
vars == <<cur, alias, stack, named, ctx, nchain, last>>
view == <<cur, alias, stack, named, ctx, nchain>>

NoName == "-"
Unset  == [set |-> FALSE, s |-> IdState]
Front(s) == SubSeq(s, 1, Len(s) - 1)

\* a mutation of the current Transform object is visible through the alias
Mutate(new) ==
  /\ cur' = new
  /\ named' = IF alias # NoName THEN [named EXCEPT ![alias] = [set |-> TRUE, s |-> new]] ELSE named

\* arguments are carried in one record shape (the one the recorder writes)
A0 == [v |-> <<0, 0, 0>>, axis |-> "z", k |-> 0, plane |-> "xy", n |-> 1, name |-> "A", P |-> <<0, 0, 0>>]
DidA(call, name, out, a) == last' = [call |-> call, name |-> name, out |-> out, a |-> a]
Did(call, name, out) == DidA(call, name, out, IF name = NoName THEN A0 ELSE [A0 EXCEPT !.name = name])

Chain ==
  \E g \in Gens :
     /\ nchain < MaxChain
     /\ Mutate(Chained(cur, GenOf(g.call, g.a)))
     /\ nchain' = nchain + 1
     /\ DidA(g.call, NoName, "ok", g.a)
     /\ UNCHANGED <<alias, stack, ctx>>

SetPivot ==
  \E P \in Pivots :
     /\ P # cur.pivot
     /\ Mutate([cur EXCEPT !.pivot = P])
     /\ DidA("set_pivot", NoName, "ok", [A0 EXCEPT !.P = P])
     /\ UNCHANGED <<alias, stack, ctx, nchain>>

Save ==
  /\ Len(stack) < MaxStack
  /\ stack' = Append(stack, cur)                    \* deepcopy
  /\ Did("save", NoName, "ok")
  /\ UNCHANGED <<cur, alias, named, ctx, nchain>>

SaveNamed ==
  \E n \in Names :
     /\ named' = [named EXCEPT ![n] = [set |-> TRUE, s |-> cur]]     \* deepcopy; replaces the entry
     /\ alias' = IF alias = n THEN NoName ELSE alias
     /\ Did("save_named", n, "ok")
     /\ UNCHANGED <<cur, stack, ctx, nchain>>

Restore ==
  IF stack = <<>>
    THEN Did("restore", NoName, "IndexError") /\ UNCHANGED <<cur, alias, stack, named, ctx, nchain>>
    ELSE /\ cur' = stack[Len(stack)]
         /\ stack' = Front(stack)
         /\ alias' = NoName
         /\ Did("restore", NoName, "ok")
         /\ UNCHANGED <<named, ctx, nchain>>

RestoreNamed ==
  \E n \in Names :
     IF ~named[n].set
       THEN Did("restore_named", n, "KeyError") /\ UNCHANGED <<cur, alias, stack, named, ctx, nchain>>
       ELSE /\ cur' = named[n].s
            /\ alias' = IF AliasOnNamedRestore THEN n ELSE NoName
            /\ Did("restore_named", n, "ok")
            /\ UNCHANGED <<stack, named, ctx, nchain>>

Delete ==
  \E n \in Names :
     IF ~named[n].set
       THEN Did("delete", n, "KeyError") /\ UNCHANGED <<cur, alias, stack, named, ctx, nchain>>
       ELSE /\ named' = [named EXCEPT ![n] = Unset]
            /\ alias' = IF alias = n THEN NoName ELSE alias
            /\ Did("delete", n, "ok")
            /\ UNCHANGED <<cur, stack, ctx, nchain>>

\* with g.current_transform():   state = (deepcopy(current), deepcopy(stack))
EnterCtx ==
  /\ Len(ctx) < MaxCtx
  /\ ctx' = Append(ctx, [cur |-> cur, stack |-> stack])
  /\ Did("ctx_enter", NoName, "ok")
  /\ UNCHANGED <<cur, alias, stack, named, nchain>>

\* with g.named_transform(name):  copy, then restore_state(name) (KeyError: the block is not entered)
EnterNamedCtx ==
  \E n \in Names :
     /\ Len(ctx) < MaxCtx
     /\ IF ~named[n].set
          THEN Did("ctx_named_enter", n, "KeyError") /\ UNCHANGED <<cur, alias, stack, named, ctx, nchain>>
          ELSE /\ ctx' = Append(ctx, [cur |-> cur, stack |-> stack])
               /\ cur' = named[n].s
               /\ alias' = IF AliasOnNamedRestore THEN n ELSE NoName
               /\ Did("ctx_named_enter", n, "ok")
               /\ UNCHANGED <<stack, named, nchain>>

\* leaving the block, normally or because the body raised: _revert_state(copy)
ExitCtx ==
  \E raised \in BOOLEAN :
     /\ ctx # <<>>
     /\ cur' = ctx[Len(ctx)].cur
     /\ stack' = ctx[Len(ctx)].stack
     /\ alias' = NoName
     /\ ctx' = Front(ctx)
     /\ Did(IF raised THEN "ctx_exit_raised" ELSE "ctx_exit", NoName, "ok")
     /\ UNCHANGED <<named, nchain>>

Init ==
  /\ cur = IdState /\ alias = NoName /\ stack = <<>> /\ ctx = <<>> /\ nchain = 0
  /\ named = [n \in Names |-> Unset]
  /\ last = [call |-> "init", name |-> NoName, out |-> "ok", a |-> A0]

Next == Chain \/ SetPivot \/ Save \/ SaveNamed \/ Restore \/ RestoreNamed \/ Delete
        \/ EnterCtx \/ EnterNamedCtx \/ ExitCtx
Spec == Init /\ [][Next]_vars

-----------------------------------------------------------------------------
(* C13 as action properties of the model                                     *)
\* a named state changes only by saving under that name or deleting it
NamedImmutable ==
  [][\A n \in Names : named'[n] = named[n] \/ (last'.call \in {"save_named", "delete"} /\ last'.name = n)]_vars
\* restore_state() yields the last unrestored save_state()
StackOrder ==
  [][/\ (last'.call = "restore" /\ last'.out = "ok") => (cur' = stack[Len(stack)] /\ stack' = Front(stack))
     /\ last'.call = "save" => (stack' = Append(stack, cur) /\ cur' = cur)
     /\ (last'.call = "restore") => ((last'.out = "IndexError") <=> (stack = <<>>))]_vars
\* restoring a name yields exactly what was saved under it
NamedRestoreExact ==
  [][(last'.call \in {"restore_named", "ctx_named_enter"}) =>
        IF named[last'.name].set THEN (last'.out = "ok" /\ cur' = named[last'.name].s)
        ELSE (last'.out = "KeyError" /\ cur' = cur /\ stack' = stack /\ ctx' = ctx)]_vars
\* context managers put back the exact transform and stack of entry, also when the body raised
CtxRestores ==
  [][(last'.call \in {"ctx_exit", "ctx_exit_raised"}) =>
        (cur' = ctx[Len(ctx)].cur /\ stack' = ctx[Len(ctx)].stack)]_vars
\* rotations and scalings about the pivot leave the pivot fixed (all generators x pivots)
PivotLemma ==
  \A g \in Gens : \A P \in Pivots : g.call \in PivotedCalls => PivotFixed(GenOf(g.call, g.a), P)
\* chained maps stay invertible: |det| >= 1 (integer sub-group)
Det(m) == m[1][1] * (m[2][2] * m[3][3] - m[2][3] * m[3][2])
        - m[1][2] * (m[2][1] * m[3][3] - m[2][3] * m[3][1])
        + m[1][3] * (m[2][1] * m[3][2] - m[2][2] * m[3][1])
Invertible == Det(cur.m) # 0
=============================================================================
