--------------------------- MODULE TransformTrace ---------------------------
(***************************************************************************)
(* C13 on recorded executions of the real CoordinateTransformer and of the *)
(* GCodeCore transform context managers.                                    *)
(*                                                                          *)
(* Two abstract states are maintained by the specification:                 *)
(*  - the OBSERVED map: the images q of fixed probe points (4 affinely       *)
(*    independent points + 1) returned by the public apply_transform();      *)
(*    stack order, named-state immutability and context-manager restoration  *)
(*    are stated on it, for arbitrary (float) transforms;                    *)
(*  - on the integer sub-group (meta.exact) additionally the MATRIX the      *)
(*    contract says is in force, composed by the specification itself        *)
(*    (pivot conjugation, left multiplication), against which every observed *)
(*    image is compared exactly.                                             *)
(***************************************************************************)
EXTENDS Transform, Json, IOUtils, TLC

Traces == JsonDeserialize(IOEnv.TRACE_FILE)
NameSet == {"A", "B", "C"}

VARIABLES tid, l, O, X, cnt
vars == <<tid, l, O, X, cnt>>

Clauses == {"C13_Reverse", "C13_Stack", "C13_Named", "C13_Delete", "C13_Ctx", "C13_Keep",
            "C13_Pivot", "C13_Matrix", "C13_Angle", "C13_Scale"}
FP == INSTANCE FixedPoint

Abs(x) == IF x < 0 THEN -x ELSE x
Close(a, b, tol) == \A i \in 1..3 : Abs(a[i] - b[i]) <= tol
Front(s) == SubSeq(s, 1, Len(s) - 1)
Qs(e) == [i \in 1..Len(e.probes) |-> e.probes[i].q]

UnsetO == [set |-> FALSE, s |-> <<>>]
UnsetX == [set |-> FALSE, s |-> IdState]

\* ------------------------------------------------------------------ observed-map model
\* expected observed map after the event, or "any" for chained generators
KeepCalls == {"save", "save_named", "set_pivot", "delete", "ctx_enter", "ctx_create"}
NextO(e) ==
  LET obs == Qs(e) IN
  CASE e.out # "ok" -> [O EXCEPT !.obs = obs]
    [] e.call = "save" -> [O EXCEPT !.stk = Append(O.stk, O.obs), !.obs = obs]
    [] e.call = "save_named" -> [O EXCEPT !.nam = [O.nam EXCEPT ![e.a.name] = [set |-> TRUE, s |-> O.obs]], !.obs = obs]
    [] e.call = "restore" -> [O EXCEPT !.stk = IF O.stk = <<>> THEN <<>> ELSE Front(O.stk), !.obs = obs]
    [] e.call = "delete" -> [O EXCEPT !.nam = [O.nam EXCEPT ![e.a.name] = UnsetO], !.obs = obs]
    [] e.call \in {"ctx_enter", "ctx_named_enter"} -> [O EXCEPT !.cx = Append(O.cx, [obs |-> O.obs, stk |-> O.stk]), !.obs = obs]
    [] e.call \in {"ctx_exit", "ctx_exit_raised"} ->
         IF O.cx = <<>> THEN [O EXCEPT !.obs = obs]
         ELSE [O EXCEPT !.stk = O.cx[Len(O.cx)].stk, !.cx = Front(O.cx), !.obs = obs]
    [] OTHER -> [O EXCEPT !.obs = obs]

\* ------------------------------------------------------------------ matrix model (exact runs)
NextX(e) ==
  CASE e.out # "ok" -> X
    [] e.call \in ChainCalls -> [X EXCEPT !.cur = Chained(X.cur, GenOf(e.call, e.a))]
    [] e.call = "set_pivot" -> [X EXCEPT !.cur = [X.cur EXCEPT !.pivot = e.a.P]]
    [] e.call = "save" -> [X EXCEPT !.stk = Append(X.stk, X.cur)]
    [] e.call = "save_named" -> [X EXCEPT !.nam = [X.nam EXCEPT ![e.a.name] = [set |-> TRUE, s |-> X.cur]]]
    [] e.call = "restore" -> IF X.stk = <<>> THEN X ELSE [X EXCEPT !.cur = X.stk[Len(X.stk)], !.stk = Front(X.stk)]
    [] e.call = "restore_named" -> IF X.nam[e.a.name].set THEN [X EXCEPT !.cur = X.nam[e.a.name].s] ELSE X
    [] e.call = "delete" -> [X EXCEPT !.nam = [X.nam EXCEPT ![e.a.name] = UnsetX]]
    [] e.call = "ctx_enter" -> [X EXCEPT !.cx = Append(X.cx, [cur |-> X.cur, stk |-> X.stk])]
    [] e.call = "ctx_named_enter" ->
         IF X.nam[e.a.name].set THEN [X EXCEPT !.cx = Append(X.cx, [cur |-> X.cur, stk |-> X.stk]), !.cur = X.nam[e.a.name].s]
         ELSE X
    [] e.call \in {"ctx_exit", "ctx_exit_raised"} ->
         IF X.cx = <<>> THEN X ELSE [X EXCEPT !.cur = X.cx[Len(X.cx)].cur, !.stk = X.cx[Len(X.cx)].stk, !.cx = Front(X.cx)]
    [] OTHER -> X

\* ------------------------------------------------------------------ clauses
Tol(M) == IF M.exact THEN 1 ELSE 3

\* A rotation by an ARBITRARY angle (float runs), judged where it can be read off directly: while the map in force has no
\* linear part yet (only translations / pivots so far), the observed images of the basis vectors are the rotation itself.
\* u is the in-plane basis vector, v its image under the right-handed quarter turn RotQ(axis): u |-> cos(t) u + sin(t) v.
LinCol(obs, i) == [k \in 1..3 |-> obs[i + 1][k] - obs[1][k]]
IdLin(obs) == \A i \in 1..3 : \A k \in 1..3 : Abs(LinCol(obs, i)[k] - (IF i = k THEN 10000 ELSE 0)) <= 1
AxisUV(axis) == CASE axis = "z" -> <<1, 2>> [] axis = "x" -> <<2, 3>> [] OTHER -> <<3, 1>>
AngleOK(e, obs) ==
  LET uv == AxisUV(e.a.axis)
      col == LinCol(obs, uv[1])
      got == FP!Atan2(col[uv[2]], col[uv[1]])                \* 10^-5 rad
      d0 == (got - e.a.ang5) % FP!TWOPI5
      d == IF d0 > FP!PI5 THEN FP!TWOPI5 - d0 ELSE d0
      w == 6 - uv[1] - uv[2]                                   \* the axis itself stays put
  IN d <= 60 /\ \A k \in 1..3 : Abs(LinCol(obs, w)[k] - (IF k = w THEN 10000 ELSE 0)) <= 2

\* A scaling by ARBITRARY factors (float runs), read off the same way: while the map in force has no linear part yet, the
\* observed images of the basis vectors are the factors themselves (e.a.sv4, in 1/10000), on the diagonal and nothing else.
\* exactly no linear part yet (a rotation by a hundredth of a degree passes IdLin's rounding tolerance, and a scaling would
\* amplify what is left of it beyond the tolerance below)
IdLin0(obs) == \A i \in 1..3 : \A k \in 1..3 : LinCol(obs, i)[k] = (IF i = k THEN 10000 ELSE 0)
ScaleOK(e, obs) ==
  \A i \in 1..3 : \A k \in 1..3 : Abs(LinCol(obs, i)[k] - (IF i = k THEN e.a.sv4[i] ELSE 0)) <= 2
HasFactors(e) == e.a.sv4 # <<0, 0, 0>>

Holds(c, e, M) ==
  LET obs == Qs(e) IN
  CASE c = "C13_Reverse" ->
         \A i \in DOMAIN e.probes : Close(e.probes[i].r, e.probes[i].p, Tol(M))
    [] c = "C13_Stack" ->
         e.call = "restore" =>
            IF O.stk = <<>> THEN (e.out = "IndexError" /\ obs = O.obs)
            ELSE (e.out = "ok" /\ obs = O.stk[Len(O.stk)])
    [] c = "C13_Named" ->
         e.call \in {"restore_named", "ctx_named_enter"} =>
            IF O.nam[e.a.name].set THEN (e.out = "ok" /\ obs = O.nam[e.a.name].s)
            ELSE (e.out = "KeyError" /\ obs = O.obs)
    [] c = "C13_Delete" ->
         e.call = "delete" => (obs = O.obs /\ (IF O.nam[e.a.name].set THEN e.out = "ok" ELSE e.out = "KeyError"))
    [] c = "C13_Ctx" ->
         (e.call \in {"ctx_exit", "ctx_exit_raised"} /\ O.cx # <<>>) => (e.out = "ok" /\ obs = O.cx[Len(O.cx)].obs)
    [] c = "C13_Keep" ->
         (e.call \in KeepCalls \/ (e.out # "ok" /\ e.call \notin {"restore", "restore_named", "ctx_named_enter", "delete"})) => obs = O.obs
    [] c = "C13_Pivot" ->
         (e.call \in PivotedCalls /\ e.out = "ok" /\ e.pv.has) => Close(e.pv.y, e.pv.P, Tol(M) + 1)
    [] c = "C13_Matrix" ->
         M.exact => \A i \in DOMAIN e.probes : Close(e.probes[i].q, ApplyM(NextX(e).cur.m, e.probes[i].p), 0)
    [] c = "C13_Angle" ->
         (e.call = "rotate" /\ e.out = "ok" /\ IdLin(O.obs)) => AngleOK(e, obs)
    [] c = "C13_Scale" ->
         (e.call = "scale" /\ e.out = "ok" /\ HasFactors(e) /\ IdLin0(O.obs)) => ScaleOK(e, obs)

Ante(c, e, M) ==
  CASE c = "C13_Stack" -> e.call = "restore"
    [] c = "C13_Named" -> e.call \in {"restore_named", "ctx_named_enter"}
    [] c = "C13_Delete" -> e.call = "delete"
    [] c = "C13_Ctx" -> e.call \in {"ctx_exit", "ctx_exit_raised"}
    [] c = "C13_Keep" -> e.call \in KeepCalls
    [] c = "C13_Pivot" -> e.call \in PivotedCalls /\ e.out = "ok" /\ e.pv.has
    [] c = "C13_Matrix" -> M.exact /\ e.call \in ChainCalls
    [] c = "C13_Angle" -> e.call = "rotate" /\ e.out = "ok" /\ IdLin(O.obs)
    [] c = "C13_Scale" -> e.call = "scale" /\ e.out = "ok" /\ HasFactors(e) /\ IdLin0(O.obs)
    [] OTHER -> TRUE

Init ==
  /\ tid \in 1..Len(Traces)
  /\ l = 1
  /\ O = [obs |-> Traces[tid].init, stk |-> <<>>, nam |-> [n \in NameSet |-> UnsetO], cx |-> <<>>]
  /\ X = [cur |-> IdState, stk |-> <<>>, nam |-> [n \in NameSet |-> UnsetX], cx |-> <<>>]
  /\ cnt = [c \in Clauses |-> 0]

Step ==
  /\ l <= Len(Traces[tid].ev)
  /\ LET T == Traces[tid]
         e == T.ev[l]
         bad == {c \in Clauses : ~Holds(c, e, T.meta)}
     IN /\ \A c \in bad : PrintT(<<"F", tid, l, c, "">>)
        /\ O' = NextO(e)
        /\ X' = IF T.meta.exact THEN NextX(e) ELSE X
        /\ cnt' = [c \in Clauses |-> cnt[c] + IF Ante(c, e, T.meta) THEN 1 ELSE 0]
  /\ l' = l + 1
  /\ UNCHANGED tid

Done ==
  /\ l = Len(Traces[tid].ev) + 1
  /\ PrintT(<<"D", tid, l - 1, cnt>>)
  /\ l' = l + 1
  /\ UNCHANGED <<tid, O, X, cnt>>

Next == Step \/ Done
Spec == Init /\ [][Next]_vars
=============================================================================
