------------------------------ MODULE Writers ------------------------------
(***************************************************************************)
(* Contract for C14: every statement written through the builder reaches   *)
(* every writer registered at that moment exactly once, in call order, as  *)
(* the same bytes; after flush()/teardown() a file output holds exactly    *)
(* the concatenation of the lines written (in its open session); teardown  *)
(* disconnects every writer and empties the registry.                       *)
(*                                                                          *)
(* Generic over the element type: in the model an element is a line id, on  *)
(* recorded executions it is a byte.  `exp` is what the contract says the   *)
(* writer must have received in its current session, `vis` what can be      *)
(* observed (file content read back through a second handle, stream         *)
(* content, chunks handed to a custom writer).                               *)
(***************************************************************************)
EXTENDS Integers, Sequences, FiniteSets, SequencesExt

\* "ufile": a real file object the USER opened (binary or text mode) and handed over; the builder never closes it
\* "console": the bundled ConsoleWriter on a captured stdout / stderr (binary buffer or text stream), flushed on every write
\* "log": the bundled LogWriter -- one log record per statement, carrying the statement's text without surrounding blanks
Kinds == {"path", "binary", "text", "custom", "ufile", "console", "log"}
RangeOf(s) == {s[i] : i \in DOMAIN s}
IsPrefixOf(s, t) == Len(s) <= Len(t) /\ SubSeq(t, 1, Len(s)) = s

\* after a write: unbuffered outputs show everything; a path-based file may lag behind (buffering) but never shows anything else
DeliveredOK(kind, vis, exp) == IF kind \in {"path", "ufile"} THEN IsPrefixOf(vis, exp) ELSE vis = exp
\* what a "log" output shows for one statement: its bytes without leading / trailing blanks, one record (rendered with a
\* newline by the observer) per statement -- also for a blank statement
Blank == {9, 10, 11, 12, 13, 28, 29, 30, 31, 32}
LogForm(data) ==
  LET keep == {i \in DOMAIN data : data[i] \notin Blank} IN
  IF keep = {} THEN <<10>>
  ELSE LET lo == CHOOSE i \in keep : \A j \in keep : i <= j
           hi == CHOOSE i \in keep : \A j \in keep : j <= i
       IN SubSeq(data, lo, hi) \o <<10>>
\* after flush / teardown, for a writer registered at that moment
FlushedOK(vis, exp) == vis = exp
=============================================================================
