---------------------------- MODULE WritersImpl ----------------------------
(***************************************************************************)
(* Implementation-shaped model of GCodeCore.add_writer / remove_writer /   *)
(* write / flush / teardown (gcode_core.py) and of FileWriter               *)
(* (writers/file_writer.py): path-based files are opened lazily with        *)
(* "wb+" (named deviation ReopenTruncates: a path writer used again after   *)
(* teardown re-creates its file, so "the lines written so far" is per open  *)
(* session), are buffered until flush() / close(); in-memory file objects   *)
(* and custom writers see every line at once and are never closed by the    *)
(* builder.  "ufile" is a real file the USER opened: buffered like a path,  *)
(* never truncated or closed by the builder; disconnect() flushes it.       *)
(* Named deviation TeardownSkipsUserFiles = the code before fix F23, where  *)
(* disconnect() only dropped its reference (Flushed is then violated).      *)
(***************************************************************************)
EXTENDS Writers, TLC

CONSTANTS W,         \* writer ids
          KindOf,    \* [W -> Kinds]
          MaxLines,
          TeardownSkipsUserFiles   \* BOOLEAN, see above

VARIABLES reg, open, pend, disk, exp, n, last
vars == <<reg, open, pend, disk, exp, n, last>>
view == <<reg, open, pend, disk, exp, n>>

Init ==
  /\ reg = <<>> /\ n = 0
  /\ open = [w \in W |-> FALSE]
  /\ pend = [w \in W |-> <<>>] /\ disk = [w \in W |-> <<>>] /\ exp = [w \in W |-> <<>>]
  /\ last = [act |-> "init", w |-> 0]

Add ==
  \E w \in W :
     /\ reg' = IF w \in RangeOf(reg) THEN reg ELSE Append(reg, w)      \* duplicates are ignored
     /\ last' = [act |-> "add", w |-> w]
     /\ UNCHANGED <<open, pend, disk, exp, n>>
RemoveW ==
  \E w \in W :
     /\ reg' = SelectSeq(reg, LAMBDA x : x # w)                        \* not disconnected, just forgotten
     /\ last' = [act |-> "remove", w |-> w]
     /\ UNCHANGED <<open, pend, disk, exp, n>>

Buffered(w) == KindOf[w] \in {"path", "ufile"}
Write ==
  /\ n < MaxLines
  /\ n' = n + 1
  /\ LET k == n + 1  R == RangeOf(reg) IN
     /\ open' = [w \in W |-> open[w] \/ w \in R]
     /\ pend' = [w \in W |-> IF w \in R /\ KindOf[w] = "path"
                               THEN (IF open[w] THEN Append(pend[w], k) ELSE <<k>>)      \* ReopenTruncates
                               ELSE IF w \in R /\ KindOf[w] = "ufile" THEN Append(pend[w], k)
                               ELSE pend[w]]
     /\ disk' = [w \in W |-> IF w \notin R THEN disk[w]
                               ELSE IF KindOf[w] = "path" THEN (IF open[w] THEN disk[w] ELSE <<>>)
                               ELSE IF KindOf[w] = "ufile" THEN disk[w]
                               ELSE Append(disk[w], k)]
     /\ exp'  = [w \in W |-> IF w \notin R THEN exp[w]
                               ELSE IF KindOf[w] = "path" /\ ~open[w] THEN <<k>>
                               ELSE Append(exp[w], k)]
  /\ last' = [act |-> "write", w |-> 0]
  /\ UNCHANGED reg

\* FileWriter.flush() reaches the file only while the writer is connected (_file is not None)
FlushOne(w, d, p) == IF Buffered(w) /\ open[w] THEN d \o p ELSE d
Skipped(w) == TeardownSkipsUserFiles /\ KindOf[w] = "ufile"
Flush ==
  /\ disk' = [w \in W |-> IF w \in RangeOf(reg) THEN FlushOne(w, disk[w], pend[w]) ELSE disk[w]]
  /\ pend' = [w \in W |-> IF w \in RangeOf(reg) /\ Buffered(w) /\ open[w] THEN <<>> ELSE pend[w]]
  /\ last' = [act |-> "flush", w |-> 0]
  /\ UNCHANGED <<reg, open, exp, n>>
Teardown ==
  /\ disk' = [w \in W |-> IF w \in RangeOf(reg) /\ ~Skipped(w) THEN FlushOne(w, disk[w], pend[w]) ELSE disk[w]]
  /\ pend' = [w \in W |-> IF w \in RangeOf(reg) /\ Buffered(w) /\ open[w] /\ ~Skipped(w) THEN <<>> ELSE pend[w]]
  /\ open' = [w \in W |-> open[w] /\ w \notin RangeOf(reg)]
  /\ reg' = <<>>
  /\ last' = [act |-> "teardown", w |-> 0]
  /\ UNCHANGED <<exp, n>>

Next == Add \/ RemoveW \/ Write \/ Flush \/ Teardown
Spec == Init /\ [][Next]_vars

-----------------------------------------------------------------------------
NoDuplicates == Cardinality(RangeOf(reg)) = Len(reg)
Delivery     == \A w \in W : DeliveredOK(KindOf[w], disk[w], exp[w]) /\ (KindOf[w] = "path" => disk[w] \o pend[w] = exp[w] \/ ~open[w]) /\ (KindOf[w] = "ufile" => disk[w] \o pend[w] = exp[w])
Flushed      == [][last'.act \in {"flush", "teardown"} => \A w \in RangeOf(reg) : FlushedOK(disk'[w], exp'[w])]_vars
TornDown     == [][last'.act = "teardown" => (reg' = <<>> /\ \A w \in RangeOf(reg) : ~open'[w])]_vars
\* exactly once, in order: what a writer was given is strictly increasing line ids
OnceInOrder  == \A w \in W : \A i, j \in DOMAIN exp[w] : i < j => exp[w][i] < exp[w][j]
=============================================================================
