---------------------------- MODULE WritersTrace ----------------------------
(***************************************************************************)
(* C14 on recorded executions of the real builder with real FileWriter     *)
(* objects (scratch files, BytesIO, StringIO, files the user opened), the  *)
(* bundled ConsoleWriter and LogWriter, and custom BaseWriter subclasses.   *)
(*  After every action the recorder reads back what each       *)
(* output holds (files through a second handle, i.e. what is durably       *)
(* there).  The registry and the expected content are kept by the          *)
(* specification itself.                                                    *)
(***************************************************************************)
EXTENDS Writers, Json, IOUtils, TLC

Traces == JsonDeserialize(IOEnv.TRACE_FILE)
VARIABLES tid, l, reg, open, exp, pobs, pdisc, cnt
vars == <<tid, l, reg, open, exp, pobs, pdisc, cnt>>
Clauses == {"C14_Delivery", "C14_Others", "C14_Flush", "C14_Teardown", "C14_Registry"}

NW(T) == Len(T.meta.kinds)
Kind(T, w) == T.meta.kinds[w]

NextReg(e) ==
  CASE e.act = "add" -> IF e.w \in RangeOf(reg) THEN reg ELSE Append(reg, e.w)
    [] e.act = "remove" -> SelectSeq(reg, LAMBDA x : x # e.w)
    [] e.act = "teardown" -> <<>>
    [] OTHER -> reg
NextExp(T, e) ==
  IF e.act = "write" /\ ~e.unenc       \* a statement without a UTF-8 form is refused: nothing is expected anywhere
    THEN [w \in 1..NW(T) |-> IF w \notin RangeOf(reg) THEN exp[w]
                              ELSE IF Kind(T, w) = "path" /\ ~open[w] THEN e.data      \* ReopenTruncates
                              ELSE IF Kind(T, w) = "log" THEN exp[w] \o LogForm(e.data)
                              ELSE exp[w] \o e.data]
    ELSE exp
NextOpen(T, e) ==
  CASE e.act = "write" /\ ~e.unenc -> [w \in 1..NW(T) |-> open[w] \/ w \in RangeOf(reg)]
    [] e.act = "teardown" -> [w \in 1..NW(T) |-> open[w] /\ w \notin RangeOf(reg)]
    [] OTHER -> open

Holds(c, T, e) ==
  LET x2 == NextExp(T, e) IN
  CASE c = "C14_Delivery" ->
         \A w \in 1..NW(T) : DeliveredOK(Kind(T, w), e.obs[w], x2[w])
    [] c = "C14_Others" ->        \* a writer that is not registered receives nothing
         e.act = "write" => \A w \in 1..NW(T) : (w \notin RangeOf(reg) /\ Kind(T, w) \notin {"path", "ufile"}) => e.obs[w] = pobs[w]
    [] c = "C14_Flush" ->
         e.act \in {"flush", "teardown"} => \A w \in RangeOf(reg) : FlushedOK(e.obs[w], x2[w])
    [] c = "C14_Teardown" ->
         e.act = "teardown" =>
            /\ e.nreg = 0
            /\ \A w \in RangeOf(reg) : Kind(T, w) = "custom" => e.disc[w] = pdisc[w] + 1
    [] c = "C14_Registry" -> e.nreg = Len(NextReg(e)) /\ (e.out = "ok") = ~e.unenc
Ante(c, T, e) ==
  CASE c = "C14_Delivery" -> e.act = "write" /\ reg # <<>>
    [] c = "C14_Others" -> e.act = "write" /\ \E w \in 1..NW(T) : w \notin RangeOf(reg)
    [] c = "C14_Flush" -> e.act \in {"flush", "teardown"} /\ reg # <<>>
    [] c = "C14_Teardown" -> e.act = "teardown" /\ reg # <<>>
    [] OTHER -> TRUE

Init ==
  /\ tid \in 1..Len(Traces) /\ l = 1 /\ reg = <<>>
  /\ open = [w \in 1..NW(Traces[tid]) |-> FALSE]
  /\ exp = [w \in 1..NW(Traces[tid]) |-> <<>>]
  /\ pobs = [w \in 1..NW(Traces[tid]) |-> <<>>]
  /\ pdisc = [w \in 1..NW(Traces[tid]) |-> 0]
  /\ cnt = [c \in Clauses |-> 0]
Step ==
  /\ l <= Len(Traces[tid].ev)
  /\ LET T == Traces[tid]  e == T.ev[l]
         bad == {c \in Clauses : ~Holds(c, T, e)}
     IN /\ \A c \in bad : PrintT(<<"F", tid, l, c, "">>)
        /\ reg' = NextReg(e) /\ exp' = NextExp(T, e) /\ open' = NextOpen(T, e)
        /\ pobs' = [w \in 1..NW(T) |-> e.obs[w]] /\ pdisc' = [w \in 1..NW(T) |-> e.disc[w]]
        /\ cnt' = [c \in Clauses |-> cnt[c] + IF Ante(c, T, e) THEN 1 ELSE 0]
  /\ l' = l + 1 /\ UNCHANGED tid
Done == /\ l = Len(Traces[tid].ev) + 1 /\ PrintT(<<"D", tid, l - 1, cnt>>) /\ l' = l + 1
        /\ UNCHANGED <<tid, reg, open, exp, pobs, pdisc, cnt>>
Next == Step \/ Done
Spec == Init /\ [][Next]_vars
=============================================================================
