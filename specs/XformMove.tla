----------------------------- MODULE XformMove -----------------------------
(***************************************************************************)
(* Contract for C04: with a transform in force, every emitted move carries *)
(* the image of the requested target (absolute mode) or the linear image   *)
(* of the requested displacement (relative mode) and mentions every axis   *)
(* whose machine coordinate has to change.                                  *)
(*                                                                          *)
(* The map in force is xf = [a, b]: a 3x3 linear part scaled by SC = 10^4  *)
(* and the translation b in trace units -- observed on the real code       *)
(* through the public apply_transform() on 0, e1, e2, e3.                   *)
(* Events have the builder shape (Builder.tla): e.call, e.out, e.a.ax,      *)
(* e.lines, e.rep;  p is the snapshot before the call.                      *)
(***************************************************************************)
EXTENDS Machine

\* SC: scale of the linear part of the observed map; carried by the trace (M.SC): 10^4 for float maps, 1 on the
\* integer sub-group, where coordinates may then be large (hundreds of mm at 3 decimals) without overflow
AbsV(x) == IF x < 0 THEN -x ELSE x
AxI == [X |-> 1, Y |-> 2, Z |-> 3]

\* SC * image coordinate i of point pt (trace units)
ImgS(M, xf, pt, i) == xf.a[i][1] * pt[1] + xf.a[i][2] * pt[2] + xf.a[i][3] * pt[3] + M.SC * xf.b[i]
\* SC * linear image of displacement d
LinS(xf, d, i)  == xf.a[i][1] * d[1] + xf.a[i][2] * d[2] + xf.a[i][3] * d[3]

PV(q) == IF q.k = "n" THEN q.v ELSE 0
Origin(p) == <<PV(p.pos[1]), PV(p.pos[2]), PV(p.pos[3])>>
\* requested absolute target in the builder's coordinates (GCodeCore.to_absolute)
Target(e, p) ==
  [i \in 1..3 |-> IF p.rel THEN PV(p.pos[i]) + PV(e.a.ax[i])
                  ELSE IF e.a.ax[i].k = "n" THEN e.a.ax[i].v ELSE PV(p.pos[i])]
Disp(e, p) == [i \in 1..3 |-> Target(e, p)[i] - Origin(p)[i]]

XMoveCalls   == {"move", "rapid", "probe"}
XBypassCalls == {"move_absolute", "rapid_absolute"}
MoveLine(ws) == GC(ws) \in MotionCodes \cup ProbeCodes
MoveLines(e) == {i \in DOMAIN e.lines : MoveLine(e.lines[i].ws)}

\* tolerance in SC-scaled trace units: exact on the integer sub-group, otherwise one unit
\* (half a unit of output rounding + quantisation of the observed matrix)
TolS(M) == IF M.exact THEN 0 ELSE M.SC + M.SC \div 2
\* ... plus, per image coordinate i, the recorder's quantisation of the builder-side coordinates (half a unit each)
\* amplified by the map: sum_j |a_ij| / 2
RowGain(xf, i) == (AbsV(xf.a[i][1]) + AbsV(xf.a[i][2]) + AbsV(xf.a[i][3])) \div 2 + 1
TolRow(M, xf, i) == IF M.exact THEN 0 ELSE TolS(M) + RowGain(xf, i)

C04_Ante(e, p, M) == e.call \in XMoveCalls /\ e.out = "ok" /\ M.xf
\* every axis word carries the image of the target / the linear image of the displacement
C04_Words(e, p, M) ==
  C04_Ante(e, p, M) =>
    /\ Cardinality(MoveLines(e)) = 1
    /\ \A li \in MoveLines(e) :
         LET ws == e.lines[li].ws IN
         \A ax \in AxisSet : HasW(ws, ax) =>
            IF p.rel THEN AbsV(M.SC * ValW(ws, ax) - LinS(e.xf, Disp(e, p), AxI[ax])) <= TolRow(M, e.xf, AxI[ax])
                     ELSE AbsV(M.SC * ValW(ws, ax) - ImgS(M, e.xf, Target(e, p), AxI[ax])) <= TolRow(M, e.xf, AxI[ax])
\* every axis whose machine coordinate has to change (by a unit or more) is mentioned
C04_Mentions(e, p, M) ==
  C04_Ante(e, p, M) =>
    \A li \in MoveLines(e) :
       LET ws == e.lines[li].ws IN
       \A ax \in AxisSet :
          AbsV(LinS(e.xf, Disp(e, p), AxI[ax])) >= M.SC + TolRow(M, e.xf, AxI[ax]) => HasW(ws, ax)
\* absolute-bypass moves are not transformed
C04_Bypass(e, p, M) ==
  (e.call \in XBypassCalls /\ e.out = "ok") =>
    \A li \in MoveLines(e) :
       LET ws == e.lines[li].ws IN
       \A ax \in AxisSet :
          /\ HasW(ws, ax) => (e.a.ax[AxI[ax]].k = "n" /\ AbsV(ValW(ws, ax) - e.a.ax[AxI[ax]].v) <= (IF M.exact THEN 0 ELSE 1))
          /\ e.a.ax[AxI[ax]].k = "n" => HasW(ws, ax)

\* end to end: machine = transform(tracked position) on the axes the machine knows
Agree(xf, rep, m, M) ==
  \A ax \in AxisSet : m.known[ax] =>
     AbsV(M.SC * m.pos[ax] - ImgS(M, xf, <<PV(rep.pos[1]), PV(rep.pos[2]), PV(rep.pos[3])>>, AxI[ax]))
        <= (IF M.exact THEN 0 ELSE (m.slack[ax] + 2) * (M.SC \div 2) + M.SC \div 2 + RowGain(xf, AxI[ax]))
C04_Keeps(e, p, m, m2, M, agreed) ==
  \* (a probe leaves the probed axes unknown on both sides; nothing is claimed across it)
  (agreed /\ e.call \in {"move", "rapid"} /\ e.out = "ok" /\ M.xf) => Agree(e.xf, e.rep, m2, M)
=============================================================================
