--------------------------- MODULE XformMoveImpl ---------------------------
(***************************************************************************)
(* Implementation-shaped model of GCodeCore._transform_move / move / rapid  *)
(* / probe / move_absolute under a coordinate transform (gcode_core.py,     *)
(* point.py: Point.combine), on the integer sub-group.                       *)
(*   origin = T(resolve(current));  target = T(to_absolute(point))           *)
(*   move   = target - origin (relative) | target (absolute)                 *)
(*   an axis is mentioned iff it was requested or origin /= target on it     *)
(***************************************************************************)
EXTENDS XformMove, TLC

CONSTANTS Maps,      \* set of maps [a, b]; a scaled by SC
          AxUsed, Coords, Deltas

VARIABLES pos, rel, mach, xf, ev, prv
vars == <<pos, rel, mach, xf, ev, prv>>
view == <<pos, rel, [mach EXCEPT !.slack = [a \in AxisSet |-> 0]], xf>>

SC == 10000
MM == [exact |-> TRUE, xf |-> TRUE, SC |-> SC]
Q(v)  == [k |-> "n", v |-> v]
NoQ   == [k |-> "none", v |-> 0]
AxSeq == <<"X", "Y", "Z">>
W(l, v) == [l |-> l, v |-> v]

Img(m, pt) == [i \in 1..3 |-> ImgS(MM, m, pt, i) \div SC]     \* exact on the integer sub-group
AxArgs(S) == { ax \in [1..3 -> {NoQ} \cup {Q(c) : c \in S}] : \A i \in 1..3 : (i \notin AxUsed => ax[i] = NoQ) }
Rep == [pos |-> pos, rel |-> rel]

Fire(call, ax, lines, newpos, newrel) ==
  /\ ev' = [call |-> call, out |-> "ok", a |-> [ax |-> ax], lines |-> lines,
            rep |-> [pos |-> newpos, rel |-> newrel], xf |-> xf]
  /\ prv' = Rep
  /\ pos' = newpos /\ rel' = newrel
  /\ mach' = Exec(mach, lines)

MoveLike(call, code, masks) ==
  \E axf \in AxArgs(IF rel THEN Deltas ELSE Coords) :
     LET ax  == <<axf[1], axf[2], axf[3]>>
         e0  == [a |-> [ax |-> ax]]
         tgt == Target(e0, Rep)
         o   == Img(xf, Origin(Rep))
         t   == Img(xf, tgt)
         w(i) == IF ax[i].k = "n" \/ o[i] # t[i]
                   THEN <<W(AxSeq[i], IF rel THEN t[i] - o[i] ELSE t[i])>> ELSE <<>>
         ws  == <<W("G", code)>> \o w(1) \o w(2) \o w(3)
         np  == [i \in 1..3 |-> IF masks /\ (ax[i].k = "n" \/ o[i] # t[i]) THEN NoQ ELSE Q(tgt[i])]
     IN /\ Fire(call, ax, <<[ws |-> ws, c |-> FALSE]>>, <<np[1], np[2], np[3]>>, rel)
        /\ UNCHANGED xf

Bypass ==
  \E axf \in AxArgs(Coords) :
     LET ax == <<axf[1], axf[2], axf[3]>>
         w(i) == IF ax[i].k = "n" THEN <<W(AxSeq[i], ax[i].v)>> ELSE <<>>
         ws == <<W("G", 10)>> \o w(1) \o w(2) \o w(3)
         pre  == IF rel THEN <<[ws |-> <<W("G", 900)>>, c |-> FALSE]>> ELSE <<>>
         post == IF rel THEN <<[ws |-> <<W("G", 910)>>, c |-> FALSE]>> ELSE <<>>
         np == [i \in 1..3 |-> IF ax[i].k = "n" THEN ax[i] ELSE pos[i]]
     IN /\ Fire("move_absolute", ax, pre \o <<[ws |-> ws, c |-> FALSE]>> \o post, <<np[1], np[2], np[3]>>, rel)
        /\ UNCHANGED xf

SetMode ==
  /\ Fire("set_distance_mode", <<NoQ, NoQ, NoQ>>, <<[ws |-> <<W("G", IF rel THEN 900 ELSE 910)>>, c |-> FALSE]>>, pos, ~rel)
  /\ UNCHANGED xf

\* the transform is changed through the transformer API (C13's business); here: any other map
SetXf ==
  \E m \in Maps :
     /\ m # xf
     /\ xf' = m
     /\ ev' = [call |-> "set_transform", out |-> "ok", a |-> [ax |-> <<NoQ, NoQ, NoQ>>], lines |-> <<>>,
               rep |-> Rep, xf |-> m]
     /\ prv' = Rep
     /\ UNCHANGED <<pos, rel, mach>>

Init ==
  /\ pos = <<NoQ, NoQ, NoQ>> /\ rel = FALSE /\ mach = InitMachine
  /\ xf \in Maps
  /\ prv = [pos |-> pos, rel |-> rel]
  /\ ev = [call |-> "init", out |-> "ok", a |-> [ax |-> <<NoQ, NoQ, NoQ>>], lines |-> <<>>, rep |-> prv, xf |-> xf]

Next == MoveLike("move", 10, FALSE) \/ MoveLike("rapid", 0, FALSE) \/ MoveLike("probe", 382, TRUE)
        \/ Bypass \/ SetMode \/ SetXf
Spec == Init /\ [][Next]_vars

Bounded == /\ \A i \in 1..3 : pos[i].k = "n" => (pos[i].v >= -3 /\ pos[i].v <= 3)
           /\ \A a \in AxisSet : mach.pos[a] >= -5 /\ mach.pos[a] <= 5

AP_Words    == [][C04_Words(ev', Rep, MM)]_vars
AP_Mentions == [][C04_Mentions(ev', Rep, MM)]_vars
AP_Bypass   == [][C04_Bypass(ev', Rep, MM)]_vars
AP_Keeps    == [][C04_Keeps(ev', Rep, mach, mach', MM, Agree(xf, Rep, mach, MM))]_vars
=============================================================================
