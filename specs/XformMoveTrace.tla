--------------------------- MODULE XformMoveTrace ---------------------------
(***************************************************************************)
(* C04 on recorded executions of the real GCodeBuilder with a transform in *)
(* force.  Events have the builder shape plus `xf`, the map observed       *)
(* through the public apply_transform() before the call.                    *)
(***************************************************************************)
EXTENDS XformMove, Json, IOUtils, TLC

Traces == JsonDeserialize(IOEnv.TRACE_FILE)
VARIABLES tid, l, mach, prev, cnt
vars == <<tid, l, mach, prev, cnt>>

Clauses == {"C04_Words", "C04_Mentions", "C04_Bypass", "C04_Keeps"}

Agreed(e, M) == (\E ax \in AxisSet : mach.known[ax]) /\ Agree(e.xf, prev, mach, M)

Holds(c, e, m2, M) ==
  CASE c = "C04_Words"    -> C04_Words(e, prev, M)
    [] c = "C04_Mentions" -> C04_Mentions(e, prev, M)
    [] c = "C04_Bypass"   -> C04_Bypass(e, prev, M)
    [] c = "C04_Keeps"    -> C04_Keeps(e, prev, mach, m2, M, Agreed(e, M))
Ante(c, e, m2, M) ==
  CASE c = "C04_Bypass" -> e.call \in XBypassCalls /\ e.out = "ok"
    [] c = "C04_Keeps"  -> Agreed(e, M) /\ e.call \in {"move", "rapid"} /\ e.out = "ok" /\ M.xf
    [] OTHER            -> C04_Ante(e, prev, M)

Init == /\ tid \in 1..Len(Traces) /\ l = 1 /\ mach = InitMachine /\ prev = Traces[tid].init
        /\ cnt = [c \in Clauses |-> 0]
Step ==
  /\ l <= Len(Traces[tid].ev)
  /\ LET T == Traces[tid]  e == T.ev[l]  m2 == Exec(mach, e.lines)
         bad == {c \in Clauses : ~Holds(c, e, m2, T.meta)}
     IN /\ \A c \in bad : PrintT(<<"F", tid, l, c, "">>)
        /\ mach' = m2 /\ prev' = e.rep
        /\ cnt' = [c \in Clauses |-> cnt[c] + IF Ante(c, e, m2, T.meta) THEN 1 ELSE 0]
  /\ l' = l + 1 /\ UNCHANGED tid
Done == /\ l = Len(Traces[tid].ev) + 1 /\ PrintT(<<"D", tid, l - 1, cnt>>) /\ l' = l + 1
        /\ UNCHANGED <<tid, mach, prev, cnt>>
Next == Step \/ Done
Spec == Init /\ [][Next]_vars
=============================================================================
